//! C10 (RDATA layouts against the RFCs) and C09 (EDNS(0) against RFC 6891).
use crate::core::*;
use crate::gen::{Gen, KIND_NAMES};
use crate::refenc::{self, Compress};
use crate::rng::Rng;
use crate::text;
use crate::walker;
use simple_dns::rdata::*;
use simple_dns::*;

fn parse_out(b: &[u8]) -> String {
    let bb = b.to_vec();
    watch(&format!("parse {}", text::hex(b)));
    guard(move || match Packet::parse(&bb) { Ok(p) => format!("ok {}", text::packet(&p)), Err(_) => "err".to_string() })
}

/// one record of the given RDATA in an otherwise empty reply, as harness text
fn packet_text(rr_text: &str) -> String {
    format!("P 7 32768 0 0 o0 0 1 {} 0 0", rr_text)
}

/// encodings that break a structural rule the library enforces (LOC version, SVCB key order, NSEC
/// window order, inner lengths overrunning the RDATA): (message, rule)
pub fn rule_breakers(thorough: bool, seed: u64) -> Vec<(Vec<u8>, String)> {
    let mut r = Rng::new(seed ^ 0xABCD);
    let mut g = Gen::new(seed ^ 0x5151);
    let mut res = vec![];
    let n = if thorough { 8000 } else { 1500 };
    for _ in 0..n {
        let which = r.below(7);
        let ipseckey = crate::gen::KIND_NAMES.iter().position(|k| *k == "IPSECKEY").unwrap();
        let (kind, rule) = match which { 6 => (ipseckey, "ipseckey-gateway-type"), 0 => (24, "loc-version"), 1 => (27, "svcb-keys"), 2 => (28, "svcb-keys"), 3 => (38, "nsec-windows"), 4 => (13, "charstr-overrun"), _ => (*r.pick(&[27usize, 38, 10, 19, 21, 26]), "inner-overrun") };
        let rd = g.rdata(kind);
        let rr = ResourceRecord::new(Name::new_unchecked("t"), CLASS::IN, 5, rd);
        let (mut b, _) = refenc::encode_packet(&packet_text(&text::rr(&rr)), Compress::Never, false, None);
        let w = walker::walk(&b).unwrap();
        let e = &w.sections[0][0];
        let (s, l) = (e.rd_start, e.rd_len);
        let mutated = match rule {
            "loc-version" => { b[s] = r.range(1, 255) as u8; true }
            // RFC 4025 2.3: gateway types 0..3 are defined; a record of another type cannot be interpreted (nor re-emitted)
            "ipseckey-gateway-type" => { if l >= 3 { b[s + 1] = r.range(4, 255) as u8; true } else { false } }
            "svcb-keys" | "nsec-windows" => {
                // the (key, length, value) triples after the name: some key (the second, the third, ... the last)
                // is made equal to the one before it, or one less (so that it may still exceed the FIRST key)
                let name_end = walker::skip_name(&b, if rule == "svcb-keys" { s + 2 } else { s }).unwrap();
                let (kw, lw) = if rule == "svcb-keys" { (2usize, 2usize) } else { (1, 1) };
                let mut at = name_end;
                let mut starts = vec![];
                while at + kw + lw <= s + l {
                    let vlen = if lw == 2 { u16::from_be_bytes([b[at + 2], b[at + 3]]) as usize } else { b[at + 1] as usize };
                    starts.push(at);
                    at += kw + lw + vlen;
                }
                if starts.len() >= 2 && at == s + l {
                    let j = 1 + r.below(starts.len() as u64 - 1) as usize;
                    let prev: u16 = if kw == 2 { u16::from_be_bytes([b[starts[j - 1]], b[starts[j - 1] + 1]]) } else { b[starts[j - 1]] as u16 };
                    let newk = if prev > 0 && r.chance(1, 2) { prev - 1 } else { prev };
                    if kw == 2 { b[starts[j]..starts[j] + 2].copy_from_slice(&newk.to_be_bytes()); } else { b[starts[j]] = newk as u8; }
                    true
                } else { false }
            }
            "charstr-overrun" => { b[s] = b[s].wrapping_add((l as u8).max(1)); (b[s] as usize) + 1 > l }
            _ => {
                // bump a length-like byte inside the RDATA beyond what remains: the last string / value length
                match kind {
                    10 | 19 => { let second = s + 1 + b[s] as usize; if second < s + l { b[second] = 255; (second + 1 + 255) > s + l } else { false } }
                    21 => { let third = s + 4; if third < s + l { b[third] = 255; third + 256 > s + l } else { false } }
                    26 => { b[s + 1] = 255; s + 2 + 255 > s + l }
                    27 => { let ne = walker::skip_name(&b, s + 2).unwrap(); if ne + 4 <= s + l { b[ne + 2] = 0xFF; b[ne + 3] = 0xFF; true } else { false } }
                    _ => { let ne = walker::skip_name(&b, s).unwrap(); if ne + 2 <= s + l { b[ne + 1] = 255; ne + 2 + 255 > s + l } else { false } }
                }
            }
        };
        if !mutated { continue; }
        res.push((b, rule.to_string()));
    }
    res
}

pub fn c10(tier: &str, seed: u64) -> Vec<Case> {
    let thorough = tier == "thorough";
    let mut g = Gen::new(seed);
    let mut v = vec![];
    let reps = if thorough { 2000 } else { 60 };
    for kind in 0..40usize {
        if kind == 25 {
            // OPT: the record as a whole (payload size in CLASS, flags and version in the TTL, the header's part) is C09's;
            // what is judged here is the RDATA layout of RFC 6891 6.1.2 alone: zero or more {OPTION-CODE, OPTION-LENGTH,
            // OPTION-DATA} triples, every one of them kept, in the order sent
            for _ in 0..reps {
                let mut o = g.opt();
                o.version = 0;
                let mut want = vec![];
                for c in &o.opt_codes { want.extend_from_slice(&c.code.to_be_bytes()); want.extend_from_slice(&(c.data.len() as u16).to_be_bytes()); want.extend_from_slice(&c.data); }
                if want.len() > 65535 { continue; }
                let mut lib = vec![];
                let wrote = verif::rdata_write(&RData::OPT(o.clone()), &mut lib).is_ok();
                let mut c = Case::oracle_only().tag("type:OPT").tag("encode");
                if !wrote || lib != want { c = c.fail("layout-written", format!("OPT: the options are not written as RFC 6891 6.1.2 triples ({} vs {} bytes)", lib.len(), want.len())); }
                v.push(c);
                let mut rec = vec![0u8, 0, 41];
                rec.extend_from_slice(&o.udp_packet_size.to_be_bytes());
                rec.extend_from_slice(&[0, 0, 0, 0]);
                rec.extend_from_slice(&(want.len() as u16).to_be_bytes());
                rec.extend_from_slice(&want);
                let mut c = Case::oracle_only().tag("type:OPT").tag("decode");
                match verif::parse_record_at(&rec, 0) {
                    Ok((r, end)) => match &r.rdata {
                        RData::OPT(got) => {
                            let same = got.opt_codes.len() == o.opt_codes.len() && got.opt_codes.iter().zip(o.opt_codes.iter()).all(|(a, b)| a.code == b.code && a.data[..] == b.data[..]);
                            if !same || got.udp_packet_size != o.udp_packet_size || end != rec.len() { c = c.fail("layout-read", format!("OPT: {} options sent, {} read (or not the same ones)", o.opt_codes.len(), got.opt_codes.len())); }
                        }
                        _ => { c = c.fail("layout-read", "OPT: type 41 is not read as OPT".into()); }
                    },
                    Err(_) => { c = c.fail("layout-read", "OPT: a well-formed option list is rejected".into()); }
                }
                v.push(c);
            }
            continue;
        }
        for rep_no in 0..reps {
            g.share = 4;
            // two repetitions per type with all names built from one label and an encoder that points whenever it can (see
            // (3) below): every embedded name is met as a pointer at least there, whatever the other draws share
            let forced = rep_no == 1 || rep_no == 4;
            let saved_pool = if forced { g.share = 8; Some(std::mem::replace(&mut g.pool, vec![b"same".to_vec()])) } else { None };
            let rd = g.rdata(kind);
            let rd_text = text::rdata(&rd);
            let tag = format!("type:{}", KIND_NAMES[kind]);
            // (1) serialising the values yields the reference encoding byte for byte, under the IANA code
            let mut lib = vec![];
            let wrote = verif::rdata_write(&rd, &mut lib).is_ok();
            let rr = ResourceRecord::new(Name::new_unchecked("t"), CLASS::IN, 5, rd.clone());
            let rr_text = text::rr(&rr);
            let (reference, _) = refenc::encode_packet(&packet_text(&rr_text), Compress::Never, false, None);
            let mut p = Packet::new_reply(7);
            p.answers.push(rr);
            let built = p.build_bytes_vec().ok();
            let mut c = Case::new(format!("spec.rdata {}", rd_text), format!("ok {}", text::hex(&lib))).tag(&tag).tag("encode");
            if !wrote { c = c.fail("rdata-write-failed", format!("{}", KIND_NAMES[kind])); }
            match &built {
                Some(b) if *b == reference => {}
                Some(b) => {
                    let at = b.iter().zip(reference.iter()).position(|(x, y)| x != y).unwrap_or(b.len().min(reference.len()));
                    c = c.fail("layout-written", format!("{}: library bytes differ from the RFC reference encoding at offset {} ({} vs {} bytes)", KIND_NAMES[kind], at, b.len(), reference.len()));
                }
                None => { c = c.fail("build-failed", format!("{}", KIND_NAMES[kind])); }
            }
            v.push(c);
            // (2) parsing the canonical RFC encoding yields the field values
            let out = parse_out(&reference);
            let mut c = Case::new(format!("parse {}", text::hex(&reference)), out.clone()).tag(&tag).tag("decode");
            if out != format!("ok {}", packet_text(&rr_text)) {
                c = c.fail("layout-read", format!("{}: parsing the RFC encoding does not give the field values back: {}", KIND_NAMES[kind], &out[..out.len().min(200)]));
            }
            // ... and they are still the field values when the record is kept beyond the receive buffer (`into_owned`)
            {
                let rb = reference.clone();
                let owned = std::panic::catch_unwind(move || Packet::parse(&rb).ok().and_then(|q| q.answers.into_iter().next().map(|r| text::rr(&r.into_owned())))).unwrap_or(None);
                if class_of(&out) == "ok" && owned.as_deref() != Some(&rr_text[..]) { c = c.fail("layout-read", format!("{}: the owned copy of the parsed record holds other field values than the encoding", KIND_NAMES[kind])); }
            }
            // ... and serialising the values that were READ (not only values built from parts) yields the encoding they were
            // read from, byte for byte, borrowed and owned alike
            if class_of(&out) == "ok" {
                let rb = reference.clone();
                let again = std::panic::catch_unwind(move || Packet::parse(&rb).ok().map(|q| {
                    let mut o = Packet::new_reply(q.id());
                    for r in q.answers.iter() { o.answers.push(r.clone().into_owned()); }
                    (q.build_bytes_vec().ok(), o.build_bytes_vec().ok())
                })).unwrap_or(None);
                match again {
                    Some((Some(a), Some(b))) if a == reference && b == reference => {}
                    _ => { c = c.fail("layout-written", format!("{}: the values read from the RFC encoding are not written back as that encoding", KIND_NAMES[kind])); }
                }
            }
            v.push(c);
            // (3) the same with a preceding record whose names the encoder may point into (receivers must
            // accept compression pointers in any embedded name)
            let mut rng2 = Rng::new(seed ^ (kind as u64) << 8);
            let two = format!("P 7 32768 0 0 o0 0 2 {} {} 0 0", text::rr(&ResourceRecord::new(g.name(), CLASS::IN, 1, RData::NS(NS(g.name())))), rr_text);
            if let Some(pool) = saved_pool { g.pool = pool; g.share = 4; }
            let (enc, _) = refenc::encode_packet(&two, Compress::Random(&mut rng2, if forced { 8 } else { 6 }), false, None);
            let out = parse_out(&enc);
            let mut c = Case::new(format!("parse {}", text::hex(&enc)), out.clone()).tag(&tag).tag("decode-compressed");
            if out != format!("ok {}", two) { c = c.fail("layout-read-compressed", format!("{}: the RFC encoding with compressed names does not give the field values back", KIND_NAMES[kind])); }
            v.push(c);
            // (2b) the same encoding with its RDATA cut short at every length, RDLENGTH saying so (a consistent, shorter
            // record, followed by another record): the layout decides - a record that ends inside a fixed-width field
            // is rejected, and nothing is read from the record that follows; no length makes the parser give up with a panic
            if reference.len() > 25 && (rep_no < 3 || thorough && rep_no < 40) {
                let full = reference.len() - 25;
                let fixed_only = rd_text.starts_with("F ") && { let toks: Vec<&str> = rd_text.split(' ').collect(); let mut all_int = true; let mut k = 3; while k < toks.len() { if toks[k] != "i" { all_int = false; break; } k += 2; } all_int };
                let cuts: Vec<usize> = if full <= 80 { (0..full).collect() } else { (0..40).map(|k| k * full / 40).chain([full - 1, full - 2]).collect() };
                for l in cuts {
                    let mut m = reference[..25 + l].to_vec();
                    m[23] = (l >> 8) as u8; m[24] = l as u8;
                    m[7] = 2;
                    m.extend_from_slice(&[1, b'z', 0, 0, 1, 0, 1, 0, 0, 0, 3, 0, 4, 10, 9, 8, 7]);
                    let out = parse_out(&m);
                    let mut c = Case::new(format!("parse {}", text::hex(&m)), out.clone()).tag(&tag).tag("decode-cut");
                    if out == "panic" { c = c.fail("layout-read", format!("{}: RDATA cut to {} of {} bytes (RDLENGTH consistent) makes the parser panic", KIND_NAMES[kind], l, full)); }
                    else if fixed_only && l > 0 && class_of(&out) == "ok" { c = c.fail("layout-read", format!("{}: a record of {} bytes is accepted for a fixed layout of {} bytes", KIND_NAMES[kind], l, full)); }
                    v.push(c);
                }
            }
            // (4) the compressing writer: RDATA of types outside RFC 1035/1183's compressible set must still be
            // the RFC encoding byte for byte, even when an earlier record offers suffixes to point to
            let first = ResourceRecord::new(g.name(), CLASS::IN, 1, RData::NS(NS(g.name())));
            let mut p2 = Packet::new_reply(7);
            p2.answers.push(first);
            p2.answers.push(ResourceRecord::new(Name::new_unchecked("t"), CLASS::IN, 5, rd.clone()));
            if let (Ok(cb), true) = (p2.build_bytes_vec_compressed(), !lib.is_empty()) {
                let code = u16::from(rd.type_code());
                let compressible = matches!(code, 2 | 3 | 4 | 5 | 7 | 8 | 9 | 12 | 6 | 14 | 15 | 17 | 18 | 21 | 23);
                if let Some(w) = walker::walk(&cb) {
                    let e = &w.sections[0][1];
                    let mut c = Case::oracle_only().tag("compressed-writer-rdata");
                    if !compressible && cb[e.rd_start..e.next()] != lib[..] { c = c.fail("layout-written-compressed", format!("{}: the compressing writer does not emit the RFC encoding of the RDATA", KIND_NAMES[kind])); }
                    // the types of RFC 1035 / 1183 whose names may be compressed: the same fields in the same
                    // order, names possibly as pointers - the record reads back with the values it was built from
                    if compressible {
                        let cbb = cb.clone();
                        let back = std::panic::catch_unwind(move || Packet::parse(&cbb).ok().and_then(|q| q.answers.get(1).map(text::rr))).unwrap_or(None);
                        if back.as_deref() != Some(&text::rr(&p2.answers[1])[..]) { c = c.fail("layout-written-compressed", format!("{}: the RDATA written by the compressing writer does not read back as the values it was built from", KIND_NAMES[kind])); }
                    }
                    v.push(c);
                }
            }
        }
    }
    // IPSECKEY, every gateway shape, cut at every length (RDLENGTH consistent; 20 octets that belong to nobody behind it):
    // never a panic, and the unassigned gateway type is rejected at every length that includes the type octet
    for m in crate::props::pk::ipseckey_cut_messages(&[0u8; 20]) {
        let out = parse_out(&m);
        let mut c = Case::new(format!("parse {}", text::hex(&m)), out.clone()).tag("type:IPSECKEY").tag("decode-cut");
        let rdlen = u16::from_be_bytes([m[25], m[26]]) as usize;
        if out == "panic" { c = c.fail("layout-read", format!("IPSECKEY: RDATA cut to {} bytes makes the parser panic", rdlen)); }
        else if rdlen >= 2 && m[28] == 9 && class_of(&out) == "ok" { c = c.fail("accepted-ipseckey-gateway-type", "an IPSECKEY with the unassigned gateway type 9 is accepted".into()); }
        v.push(c);
    }
    // structural rules: encodings that break them must be rejected
    for (b, rule) in rule_breakers(thorough, seed) {
        let out = parse_out(&b);
        let mut c = Case::new(format!("parse {}", text::hex(&b)), out.clone()).tag("reject").tag(&format!("rule:{}", rule));
        if class_of(&out) != "err" { c = c.fail(&format!("accepted-{}", rule), format!("an encoding breaking the {} rule was not rejected: {}", rule, &out[..out.len().min(160)])); }
        v.push(c);
    }
    let mut r = Rng::new(seed ^ 0xABCE);
    // OPT (one of the typed variants): an option whose length, or whose 4-byte head, runs past the
    // RDATA must be rejected even when enough bytes of the *next* record follow
    for i in 0..(if thorough { 2000 } else { 150 }) {
        let mut p = Packet::new_reply(r.next() as u16);
        let mut opt = g.opt();
        if opt.opt_codes.is_empty() { opt.opt_codes.push(OPTCode { code: 10, data: r.bytes(8).into() }); }
        *p.opt_mut() = Some(opt);
        for _ in 0..r.range(1, 2) { p.additional_records.push(g.rr_of(*r.pick(&[0usize, 1, 12, 13]))); }
        let (mut b, _) = refenc::encode_packet(&text::packet(&p), Compress::Never, false, Some(0));
        let w = walker::walk(&b).unwrap();
        let e = w.sections[2].iter().find(|e| e.typ == 41).unwrap().clone();
        let following = b.len() - e.next();
        let rule;
        if i % 2 == 0 {
            // last option's length made larger, by no more than what follows the record
            let mut at = e.rd_start;
            loop { let l = u16::from_be_bytes([b[at + 2], b[at + 3]]) as usize; if at + 4 + l >= e.next() { break; } at += 4 + l; }
            let l = u16::from_be_bytes([b[at + 2], b[at + 3]]) as usize;
            let d = r.range(1, following.min(40) as u64) as usize;
            b[at + 2..at + 4].copy_from_slice(&((l + d) as u16).to_be_bytes());
            rule = "opt-option-overrun";
        } else {
            // 1..3 surplus bytes inside the RDATA (RDLENGTH adjusted): a truncated option head
            let d = r.range(1, 3) as usize;
            let extra = r.bytes(d);
            let at = e.next();
            for (k, x) in extra.iter().enumerate() { b.insert(at + k, *x); }
            b[e.rd_start - 2..e.rd_start].copy_from_slice(&((e.rd_len + d) as u16).to_be_bytes());
            rule = "opt-option-head-cut";
        }
        let out = parse_out(&b);
        let mut c = Case::new(format!("parse {}", text::hex(&b)), out.clone()).tag("reject").tag(&format!("rule:{}", rule));
        if class_of(&out) != "err" { c = c.fail(&format!("accepted-{}", rule), format!("an OPT record whose option list does not fit its RDATA was not rejected: {}", &out[..out.len().min(160)])); }
        v.push(c);
    }
    // RFC 1183: the ISDN sub-address is optional
    {
        let (mut b, _) = refenc::encode_packet(&packet_text("n 1 x74 1 5 0 F 20 2 b x313530 b x"), Compress::Never, false, None);
        // drop the empty <sa> string: RDATA = <ISDN-address> only
        b.pop();
        let l = b.len();
        b[l - 5] = 4; // RDLENGTH 5 -> 4
        let out = parse_out(&b);
        let mut c = Case::new(format!("parse {}", text::hex(&b)), out.clone()).tag("isdn-no-sa");
        if class_of(&out) != "ok" { c = c.fail("isdn-without-subaddress", "an ISDN record without the optional sub-address (RFC 1183 3.2) is rejected".into()); }
        v.push(c);
    }
    // the typed constructors: `A::from(Ipv4Addr)` / `AAAA::from(Ipv6Addr)` hold and write the address octets in network order
    for k in 0..(if thorough { 2000 } else { 200 }) {
        let x4: u32 = if k < 4 { [0u32, 1, 0x01020304, u32::MAX][k] } else { g.rng.int(32) as u32 };
        let x6: u128 = if k < 4 { [0u128, 1, 0x20010db8_00000000_00000000_00000001, u128::MAX][k] } else { g.rng.int(128) };
        let a = simple_dns::rdata::A::from(std::net::Ipv4Addr::from(x4));
        let aaaa = simple_dns::rdata::AAAA::from(std::net::Ipv6Addr::from(x6));
        let (mut b4, mut b6) = (vec![], vec![]);
        let _ = verif::rdata_write(&RData::A(a.clone()), &mut b4);
        let _ = verif::rdata_write(&RData::AAAA(aaaa.clone()), &mut b6);
        let mut c = Case::oracle_only().tag("typed-constructors");
        if a.address != x4 || b4 != x4.to_be_bytes() { c = c.fail("layout-written", format!("A::from({}) holds {:#x} and writes {:?}", std::net::Ipv4Addr::from(x4), a.address, b4)); }
        if aaaa.address != x6 || b6 != x6.to_be_bytes() { c = c.fail("layout-written", format!("AAAA::from({}) holds {:#x} and writes {:?}", std::net::Ipv6Addr::from(x6), aaaa.address, b6)); }
        v.push(c);
    }
    // an NSEC value whose (distinct) windows are held in another order than the wire demands: serialising it yields the
    // canonical encoding all the same (RFC 4034 4.1.2: blocks in increasing numerical order)
    for k in 0..6u8 {
        use simple_dns::rdata::{NSEC, TypeBitMap};
        let wins: Vec<(u8, Vec<u8>)> = vec![(4 + k, vec![0x40]), (0, vec![0x62, 0x01, 0x80, 0x08, 0, 3]), (1 + k % 3, vec![0, 0x20])];
        let next = Name::new_unchecked("host.example.com");
        let value = NSEC { next_name: next.clone(), type_bit_maps: wins.iter().map(|(w, b)| TypeBitMap { window_block: *w, bitmap: b.clone().into() }).collect() };
        let mut sorted = wins.clone();
        sorted.sort();
        let mut want = vec![];
        for l in next.get_labels() { want.push(l.len() as u8); want.extend_from_slice(l.as_bytes()); }
        want.push(0);
        for (w, b) in &sorted { want.push(*w); want.push(b.len() as u8); want.extend_from_slice(b); }
        let mut c = Case::oracle_only().tag("nsec-unordered-value");
        for comp in [false, true] {
            let mut p = Packet::new_reply(1);
            p.answers.push(ResourceRecord::new(Name::new_unchecked("a.example.com"), CLASS::IN, 1, RData::NSEC(value.clone())));
            let bytes = if comp { p.build_bytes_vec_compressed() } else { p.build_bytes_vec() };
            match bytes.ok().and_then(|b| walker::walk(&b).map(|w| (b, w))) {
                Some((b, w)) => { let e = &w.sections[0][0]; if b[e.rd_start..e.next()] != want[..] { c = c.fail("layout-written", format!("NSEC with windows held out of order: the {} writer does not emit the blocks in increasing order", if comp { "compressing" } else { "plain" })); } }
                None => { c = c.fail("layout-written", "NSEC with windows held out of order: not serialised / not framed".into()); }
            }
        }
        v.push(c);
    }
    // RFC 1706 5: the NSAP RDATA is "a variable length string of octets containing the NSAP", at most 20 octets; the
    // library reads the fixed 20-octet GOSIP layout only
    for n in [1usize, 13, 19] {
        let mut b = vec![0u8, 1, 0x80, 0, 0, 0, 0, 1, 0, 0, 0, 0, 1, b't', 0, 0, 22, 0, 1, 0, 0, 0, 5, 0, n as u8];
        b.push(0x47);
        b.extend(std::iter::repeat(0x11u8).take(n - 1));
        let out = parse_out(&b);
        let mut c = Case::new(format!("parse {}", text::hex(&b)), out.clone()).tag("nsap-short");
        if class_of(&out) != "ok" { c = c.fail("nsap-variable-length", format!("an NSAP record of {} octets (RFC 1706 5: variable length, at most 20) is rejected", n)); }
        v.push(c);
    }
    // every type through writers that take a few bytes per call (a socket, a pipe, a compressor) and into storage that
    // ends inside the RDATA: the layout is written in full - the bytes of `build_bytes_vec` - or an error is reported;
    // never a shortened field under the full RDLENGTH reported as success
    for kind in 0..40usize {
        for rep in 0..(if thorough { 12 } else { 2 }) {
            let rr = g.rr_of(kind);
            let mut p = Packet::new_reply(rep as u16);
            if let RData::OPT(o) = &rr.rdata { *p.opt_mut() = Some(o.clone()); } else { p.answers.push(rr); }
            let want = match p.build_bytes_vec() { Ok(b) => b, Err(_) => continue };
            if want.len() > 3000 { continue; }
            let wantc = p.build_bytes_vec_compressed().unwrap_or_default();
            let mut c = Case::oracle_only().tag(&format!("type:{}", crate::gen::KIND_NAMES[kind])).tag("slow-writer");
            for chunk in [1usize, 3, 11] {
                let mut sink = crate::props::wr::SlowSink { inner: std::io::Cursor::new(vec![]), chunk, interrupt: chunk == 3, tick: 0 };
                let ok = std::panic::catch_unwind(std::panic::AssertUnwindSafe(|| p.write_to(&mut sink).is_ok())).unwrap_or(false);
                if !ok || sink.inner.get_ref()[..] != want[..] { c = c.fail("layout-written-slow-writer", format!("{}: write_to through a writer accepting {} byte(s) per call does not emit the bytes of build_bytes_vec", crate::gen::KIND_NAMES[kind], chunk)); break; }
                let mut sink = crate::props::wr::SlowSink { inner: std::io::Cursor::new(vec![]), chunk, interrupt: false, tick: 0 };
                let ok = std::panic::catch_unwind(std::panic::AssertUnwindSafe(|| p.write_compressed_to(&mut sink).is_ok())).unwrap_or(false);
                if !ok || sink.inner.get_ref()[..] != wantc[..] { c = c.fail("layout-written-slow-writer", format!("{}: write_compressed_to through a writer accepting {} byte(s) per call does not emit the bytes of build_bytes_vec_compressed", crate::gen::KIND_NAMES[kind], chunk)); break; }
            }
            for short in 1..=4usize {
                if want.len() <= 12 + short { continue; }
                let mut store = vec![0u8; want.len() - short];
                let res = { let mut cur = std::io::Cursor::new(&mut store[..]); std::panic::catch_unwind(std::panic::AssertUnwindSafe(|| p.write_to(&mut cur).is_ok())).unwrap_or(true) };
                if res { c = c.fail("layout-written-slow-writer", format!("{}: write_to into storage {} byte(s) too small reports success", crate::gen::KIND_NAMES[kind], short)); break; }
            }
            v.push(c);
        }
    }
    svcb_builder(thorough, seed, &mut v);
    v
}

/// SVCB / HTTPS built through `set_param` and the typed helpers (`set_mandatory`, `set_alpn`,
/// `set_no_default_alpn`, `set_port`, `set_ipv4hint`, `set_ipv6hint`), in any order and with repeats:
/// the model replays the calls; the oracle keeps its own ordered map with the SvcParamValues of
/// RFC 9460 section 7 and checks the written RDATA against the reference encoder and the parse back.
fn svcb_builder(thorough: bool, seed: u64, v: &mut Vec<Case>) {
    use std::collections::BTreeMap;
    let mut g = Gen::new(seed ^ 0x5CB);
    let n = if thorough { 6000 } else { 400 };
    for i in 0..n {
        let https = g.rng.chance(1, 3);
        let code = if https { 65 } else { 64 };
        let prio = g.u16();
        let target = g.name();
        let mut s = SVCB::new(prio, target.clone());
        let mut expect: BTreeMap<u16, Vec<u8>> = BTreeMap::new();
        let mut ops = vec![];
        let mut oks = String::new();
        let nops = if i % 50 == 0 { 0 } else { g.rng.range(1, 7) };
        for _ in 0..nops {
            let (key, value, text, ok): (u16, Vec<u8>, String, bool) = match g.rng.below(8) {
                0 | 1 => {
                    let k = if g.rng.chance(1, 2) { g.rng.below(8) as u16 } else { g.u16() };
                    let val = match g.rng.below(12) { 0 => vec![0u8; 65535], 1 => vec![7u8; 65536], 2 => vec![], _ => { let n = g.rng.below(20) as usize; g.rng.bytes(n) } };
                    let r = s.set_param(k, val.clone());
                    (k, val.clone(), format!("p {} {}", k, text::hex(&val)), r.is_ok())
                }
                2 => {
                    let ks: Vec<u16> = (0..g.rng.below(5)).map(|_| if g.rng.chance(1, 2) { g.rng.below(8) as u16 } else { g.u16() }).collect();
                    let r = s.set_mandatory(ks.iter().copied());
                    let val: Vec<u8> = ks.iter().flat_map(|k| vec![(k >> 8) as u8, (k & 255) as u8]).collect();
                    (0, val, format!("m {} {}", ks.len(), ks.iter().map(|k| k.to_string()).collect::<Vec<_>>().join(" ")), r.is_ok())
                }
                3 => {
                    let many = g.rng.chance(1, 15);
                    let ids: Vec<Vec<u8>> = if many { (0..258).map(|_| vec![b'h'; 255]).collect() } else { (0..g.rng.below(4)).map(|_| { if g.rng.chance(1, 8) { vec![] } else { let n = g.rng.range(1, 9) as usize; g.rng.bytes(n) } }).collect() };
                    let r = s.set_alpn(ids.iter().map(|b| crate::gen::mk_cs(b)));
                    let mut val = vec![];
                    for id in &ids { val.push(id.len() as u8); val.extend_from_slice(id); }
                    (1, val, format!("a {} {}", ids.len(), ids.iter().map(|b| text::hex(b)).collect::<Vec<_>>().join(" ")), r.is_ok())
                }
                4 => { s.set_no_default_alpn(); (2, vec![], "d".to_string(), true) }
                5 => { let p = g.u16(); s.set_port(p); (3, vec![(p >> 8) as u8, (p & 255) as u8], format!("o {}", p), true) }
                6 => {
                    let ips: Vec<u32> = (0..g.rng.below(4)).map(|_| g.rng.int(32) as u32).collect();
                    let r = s.set_ipv4hint(ips.iter().copied());
                    let mut val = vec![];
                    for ip in &ips { for sh in [24, 16, 8, 0] { val.push((ip >> sh) as u8); } }
                    (4, val, format!("4 {} {}", ips.len(), ips.iter().map(|k| k.to_string()).collect::<Vec<_>>().join(" ")), r.is_ok())
                }
                _ => {
                    let ips: Vec<u128> = (0..g.rng.below(3)).map(|_| g.rng.int(128)).collect();
                    let r = s.set_ipv6hint(ips.iter().copied());
                    let mut val = vec![];
                    for ip in &ips { for j in (0..16).rev() { val.push((ip >> (8 * j)) as u8); } }
                    (6, val, format!("6 {} {}", ips.len(), ips.iter().map(|k| k.to_string()).collect::<Vec<_>>().join(" ")), r.is_ok())
                }
            };
            let should = value.len() <= 65535;
            if should { expect.insert(key, value); }
            oks.push(if ok { '1' } else { '0' });
            ops.push(text);
            if ok != should {
                v.push(Case::oracle_only().tag("svcb-builder").fail("svcb-set-result", format!("setting key {} with a value of the permitted/forbidden size returned {}", key, if ok { "Ok" } else { "Err" })));
            }
        }
        let rd = if https { RData::HTTPS(HTTPS(s.clone())) } else { RData::SVCB(s.clone()) };
        let mut lib = vec![];
        let wrote = verif::rdata_write(&rd, &mut lib).is_ok();
        let impl_out = format!("ok {} {} {}", oks, text::rdata(&rd), if wrote { format!("ok {}", text::hex(&lib)) } else { "err".to_string() });
        let op = format!("svcb {} {} {} {} {}", code, prio, text::name(&target), ops.len(), ops.join(" "));
        let mut c = Case::new(op.trim_end().to_string(), impl_out).tag("svcb-builder").tag(if https { "type:HTTPS" } else { "type:SVCB" });
        // oracle: RFC 9460 2.2 encoding of the expected map, and every stored value readable by key
        let kv = if expect.is_empty() { "0".to_string() } else { format!("{} {}", expect.len(), expect.iter().map(|(k, b)| format!("{} {}", k, text::hex(b))).collect::<Vec<_>>().join(" ")) };
        let rd_text = format!("F {} 3 i {} {} t {}", code, prio, text::name(&target), kv);
        let total: usize = expect.values().map(|b| b.len() + 4).sum();
        if total < 60000 {
            let rr_text = format!("n 1 x74 1 5 0 {}", rd_text);
            let (reference, _) = refenc::encode_packet(&packet_text(&rr_text), Compress::Never, false, None);
            let w = walker::walk(&reference).unwrap();
            let e = &w.sections[0][0];
            if !wrote || reference[e.rd_start..e.next()] != lib[..] { c = c.fail("svcb-built-layout", "the record built through the SVCB helper API is not the RFC 9460 encoding of the parameters that were set".into()); }
            let out = parse_out(&reference);
            if out != format!("ok {}", packet_text(&rr_text)) { c = c.fail("svcb-built-read", "the RFC 9460 encoding of the built parameters does not parse back to them".into()); }
        }
        for (k, b) in &expect { if s.get_param(*k) != Some(&b[..]) { c = c.fail("svcb-get-param", format!("get_param({}) does not return the value last set", k)); } }
        if s.iter_params().count() != expect.len() { c = c.fail("svcb-param-count", "iter_params yields a different number of parameters than distinct keys set".into()); }
        v.push(c);
    }
}

pub fn c09(tier: &str, seed: u64) -> Vec<Case> {
    let thorough = tier == "thorough";
    let mut g = Gen::new(seed);
    let mut r = Rng::new(seed ^ 0x9090);
    let mut v = vec![];
    let udps = [0u16, 512, 1232, 65535];
    let versions = [0u8, 1, 3, 127, 255];
    for rc in Gen::RCODES.iter() {
        for ver in versions {
            for udp in udps {
                for extra in 0..(if thorough { 12 } else { 3 }) {
                    let nopts = if extra == 1 && ver == 3 { *r.pick(&[32usize, 33, 40, 120]) } else { r.below(4) as usize };
                    let opt = OPT { udp_packet_size: udp, version: ver,
                        opt_codes: (0..nopts).map(|_| { let l = if nopts > 8 { r.below(3) as usize } else { *r.pick(&[0usize, 1, 3, 255, 1000]) }; OPTCode { code: if r.chance(1, 2) { r.below(20) as u16 } else { r.next() as u16 }, data: r.bytes(l).into() } }).collect() };
                    // replies and (every third) queries: the split of the response code does not depend on QR
                    let mut p = if extra % 3 == 2 { Packet::new_query(r.next() as u16) } else { Packet::new_reply(r.next() as u16) };
                    *p.rcode_mut() = *rc;
                    *p.opt_mut() = Some(opt.clone());
                    for _ in 0..extra { p.additional_records.push(g.rr_of(*r.pick(&[0usize, 1, 12, 13]))); }
                    if extra == 2 { p.answers.push(g.rr_of(0)); }
                    if extra % 2 == 1 { for _ in 0..1 + extra / 4 { p.name_servers.push(g.rr_of(*r.pick(&[2usize, 14, 0]))); } }
                    // EDNS rides on ordinary messages: questions, any opcode and flags
                    if (extra + ver as usize) % 2 == 1 {
                        for _ in 0..r.below(3) { p.questions.push(g.question()); }
                        *p.opcode_mut() = *r.pick(&Gen::OPCODES);
                        let mut fl = PacketFlag::empty();
                        for f in [PacketFlag::AUTHORITATIVE_ANSWER, PacketFlag::TRUNCATION, PacketFlag::RECURSION_DESIRED, PacketFlag::RECURSION_AVAILABLE, PacketFlag::AUTHENTIC_DATA, PacketFlag::CHECKING_DISABLED] { if r.chance(1, 3) { fl |= f; } }
                        p.set_flags(fl);
                    }
                    let ptxt = text::packet(&p);
                    // both writers: the plain one and, every other time, the compressing one
                    let comp = extra % 2 == 1 || r.chance(1, 3);
                    let built = if comp { p.build_bytes_vec_compressed() } else { p.build_bytes_vec() };
                    let out = match &built { Ok(b) => format!("ok {}", text::hex(b)), Err(_) => "err".to_string() };
                    let mut c = Case::new(format!("{} {}", if comp { "build.comp" } else { "build" }, ptxt), out).tag(if comp { "build-compressed" } else { "build" }).tag(&format!("rcode:{:?}", rc));
                    if let Ok(b) = &built {
                        // RFC 6891, clause by clause, on the library's bytes
                        match walker::walk(b) {
                            None => { c = c.fail("opt-not-framed", "output does not walk".into()); }
                            Some(w) => {
                                let opts: Vec<&walker::Entry> = w.sections[2].iter().filter(|e| e.typ == 41).collect();
                                let others = w.sections[0].iter().chain(w.sections[1].iter()).filter(|e| e.typ == 41).count();
                                if opts.len() != 1 || others != 0 { c = c.fail("opt-count", format!("{} OPT records in the additional section", opts.len())); }
                                else {
                                    let e = opts[0];
                                    if e.name_end != e.off + 1 || b[e.off] != 0 { c = c.fail("opt-owner", "owner is not the root".into()); }
                                    if e.class != udp { c = c.fail("opt-class", format!("CLASS {} for UDP size {}", e.class, udp)); }
                                    let rfc_ttl = (((*rc as u32) >> 4) & 0xFF) << 24 | (ver as u32) << 16;
                                    if e.ttl != rfc_ttl {
                                        if e.ttl == rfc_ttl.swap_bytes() { c = c.fail_if_nothing_else("opt-ttl-byte-order", format!("TTL {:#010x}, RFC 6891 puts extended RCODE and VERSION in the two high octets: {:#010x}", e.ttl, rfc_ttl)); }
                                        else { c = c.fail("opt-ttl-wrong", format!("TTL {:#010x}, expected {:#010x}", e.ttl, rfc_ttl)); }
                                    }
                                    let mut want = vec![];
                                    for o in &opt.opt_codes { want.extend_from_slice(&o.code.to_be_bytes()); want.extend_from_slice(&(o.data.len() as u16).to_be_bytes()); want.extend_from_slice(&o.data); }
                                    if b[e.rd_start..e.next()] != want[..] { c = c.fail("opt-rdata", "RDATA is not the option triples".into()); }
                                    if w.counts[3] as usize != p.additional_records.len() + 1 { c = c.fail("opt-arcount", format!("ARCOUNT {}", w.counts[3])); }
                                    if w.flags & 0xF != (*rc as u16) & 0xF { c = c.fail("opt-header-rcode", "low 4 bits of the response code".into()); }
                                }
                            }
                        }
                        // parsing reverses all of this
                        let back = parse_out(b);
                        if back != format!("ok {}", ptxt) { c = c.fail("opt-roundtrip", format!("parse(build(p)) != p: {}", &back[..back.len().min(200)])); }
                    } else { c = c.fail("opt-build-failed", "".into()); }
                    v.push(c);
                }
            }
        }
    }
    // EDNS data set and then taken away again (`*opt_mut() = None`): no OPT record, ARCOUNT back to the number of records
    for k in 0..12u16 {
        let mut p = Packet::new_reply(k);
        *p.opt_mut() = Some(g.opt());
        for _ in 0..(k % 3) { p.additional_records.push(g.rr_of(0)); }
        *p.rcode_mut() = if k % 2 == 0 { RCODE::BADVERS } else { RCODE::NoError };
        *p.opt_mut() = None;
        let mut c = Case::oracle_only().tag("opt-cleared");
        for (how, bytes) in [("plain", p.build_bytes_vec()), ("compressed", p.build_bytes_vec_compressed())] {
            match bytes.ok().and_then(|b| walker::walk(&b)) {
                Some(w) => { if w.sections[2].iter().any(|e| e.typ == 41) || w.counts[3] as usize != p.additional_records.len() { c = c.fail("opt-count", format!("{}: after the EDNS data was removed the message still carries an OPT record or counts one", how)); } }
                None => { c = c.fail("opt-not-framed", format!("{}: not framed", how)); }
            }
        }
        v.push(c);
    }
    // the option triples through writers that take a few bytes per call, and into storage that ends inside the last
    // option value: the same bytes, or an error - never a shortened value reported as success
    for i in 0..(if thorough { 300 } else { 40 }) {
        let mut p = Packet::new_reply(i as u16);
        let mut o = g.opt();
        if o.opt_codes.is_empty() || i % 2 == 0 { o.opt_codes.push(simple_dns::rdata::OPTCode { code: 10, data: r.bytes(8 + (i % 17) as usize).into() }); }
        *p.opt_mut() = Some(o);
        p.additional_records.push(g.rr_of(0));
        let want = match p.build_bytes_vec() { Ok(b) => b, Err(_) => continue };
        let wantc = p.build_bytes_vec_compressed().unwrap_or_default();
        let mut c = Case::oracle_only().tag("opt-slow-writer");
        for chunk in [1usize, 5, 7] {
            let mut sink = crate::props::wr::SlowSink { inner: std::io::Cursor::new(vec![]), chunk, interrupt: chunk == 5, tick: 0 };
            let ok = std::panic::catch_unwind(std::panic::AssertUnwindSafe(|| p.write_to(&mut sink).is_ok())).unwrap_or(false);
            if !ok || sink.inner.get_ref()[..] != want[..] { c = c.fail("opt-rdata", format!("write_to through a writer accepting {} byte(s) per call does not emit the bytes of build_bytes_vec (option values must be written in full)", chunk)); }
            let mut sink = crate::props::wr::SlowSink { inner: std::io::Cursor::new(vec![]), chunk, interrupt: false, tick: 0 };
            let ok = std::panic::catch_unwind(std::panic::AssertUnwindSafe(|| p.write_compressed_to(&mut sink).is_ok())).unwrap_or(false);
            if !ok || sink.inner.get_ref()[..] != wantc[..] { c = c.fail("opt-rdata", format!("write_compressed_to through a writer accepting {} byte(s) per call does not emit the bytes of build_bytes_vec_compressed", chunk)); }
        }
        // fixed storage ending 1 .. 6 bytes before the end of the OPT record
        if let Some(w) = walker::walk(&want) {
            if let Some(e) = w.sections[2].iter().find(|e| e.typ == 41) {
                for short in 1..=6usize {
                    if e.next() <= short || e.rd_len < short { continue; }
                    let mut store = vec![0u8; e.next() - short];
                    let res = { let mut cur = std::io::Cursor::new(&mut store[..]); std::panic::catch_unwind(std::panic::AssertUnwindSafe(|| p.write_to(&mut cur).is_ok())).unwrap_or(true) };
                    if res { c = c.fail("opt-rdata", format!("write_to into storage that ends {} byte(s) before the end of the OPT record reports success", short)); }
                }
            }
        }
        v.push(c);
    }
    // parsing messages encoded independently, OPT at every index of the additional section, in the
    // library's TTL layout (what it emits) and in the RFC's
    let n = if thorough { 6000 } else { 500 };
    for i in 0..n {
        let mut p = if i % 4 == 1 { Packet::new_query(r.next() as u16) } else { Packet::new_reply(r.next() as u16) };
        let rc = *r.pick(&Gen::RCODES);
        *p.rcode_mut() = rc;
        let opt = g.opt();
        *p.opt_mut() = Some(opt.clone());
        let k = r.below(4) as usize;
        for _ in 0..k { p.additional_records.push(g.rr_of(*r.pick(&[0usize, 1, 12, 16]))); }
        if i % 2 == 1 {
            for _ in 0..r.below(3) { p.questions.push(g.question()); }
            for _ in 0..r.below(3) { p.answers.push(g.rr_of(*r.pick(&[0usize, 1, 12, 16]))); }
            if r.chance(1, 3) { p.name_servers.push(g.rr_of(2)); }
            *p.opcode_mut() = *r.pick(&Gen::OPCODES);
        }
        let ptxt = text::packet(&p);
        let pos = r.below(k as u64 + 1) as usize;
        let rfc_layout = i % 3 == 0;
        let (mut b, _) = refenc::encode_packet(&ptxt, Compress::Never, rfc_layout, Some(pos));
        // the 16 flag bits of the OPT TTL (DO and the reserved ones) as other implementations set them: they are
        // not the library's to interpret and must not disturb version, response code or anything else
        let mut rc = rc;
        if i % 3 != 2 {
            if let Some(w) = walker::walk(&b) {
                if let Some(e) = w.sections[2].iter().find(|e| e.typ == 41) {
                    let t = e.rd_start - 6;
                    // library layout: the flags are the two high octets; RFC layout: the two low ones
                    let (hi, lo) = if rfc_layout { (t + 2, t + 3) } else { (t, t + 1) };
                    b[hi] |= *r.pick(&[0x80u8, 0x80, 0x40, 0xFF]);
                    if r.chance(1, 2) { b[lo] |= r.next() as u8; }
                    // every value of the extended-RCODE octet with every low nibble in the header, not only those of the
                    // named codes: the 12 bits are recombined as they are (an unassigned code reads as `Reserved`)
                    if i % 2 == 1 {
                        let ext_at = if rfc_layout { t } else { t + 3 };
                        let any = r.next() as u8; let ext = *r.pick(&[0u8, 1, 2, 0x0F, 0x10, 0x11, 0x80, 0xFF, any]);
                        let nib = r.below(16) as u8;
                        b[ext_at] = ext;
                        b[3] = (b[3] & 0xF0) | nib;
                        rc = RCODE::from(((ext as u16) << 4) | nib as u16);
                    }
                }
            }
        }
        let out = parse_out(&b);
        let mut c = Case::new(format!("parse {}", text::hex(&b)), out.clone()).tag(if rfc_layout { "parse-rfc-layout" } else { "parse-lib-layout" }).tag(&format!("opt-at:{}", pos));
        match Packet::parse(&b) {
            Ok(q) => {
                let o = q.opt();
                if o.is_none() { c = c.fail("opt-not-lifted", "OPT present but Packet::opt() is None".into()); }
                else {
                    let o = o.unwrap();
                    if q.additional_records.len() != k || q.additional_records.iter().any(|x| matches!(x.rdata, RData::OPT(_))) { c = c.fail("opt-not-removed", "OPT left in the additional section".into()); }
                    if o.udp_packet_size != opt.udp_packet_size { c = c.fail("opt-udp", "payload size".into()); }
                    if text::opt_data(o).split(' ').skip(2).collect::<Vec<_>>() != text::opt_data(&opt).split(' ').skip(2).collect::<Vec<_>>() { c = c.fail("opt-options", "options".into()); }
                    let want_rc = rc as u16;
                    let ok = o.version == opt.version && (q.rcode() as u16 == want_rc || (want_rc == 15 && q.rcode() == RCODE::Reserved));
                    if !ok {
                        if rfc_layout { c = c.fail_if_nothing_else("opt-ttl-byte-order", format!("an RFC 6891 OPT TTL (version {}, rcode {:?}) is read as version {} rcode {:?}", opt.version, rc, o.version, q.rcode())); }
                        else { c = c.fail("opt-read", format!("version {} rcode {:?} read as version {} rcode {:?}", opt.version, rc, o.version, q.rcode())); }
                    }
                }
            }
            Err(_) => { c = c.fail("opt-rejected", "a valid EDNS message is rejected".into()); }
        }
        v.push(c);
        // a received EDNS message answered with another response code (what a server does with a parsed query,
        // a proxy with a reply): the 12 bits are split again from the NEW code, nothing of the old one is left
        if !rfc_layout {
            if let Ok(mut q) = Packet::parse(&b) {
                if q.opt().is_some() {
                    let new_rc = *r.pick(&Gen::RCODES);
                    *q.rcode_mut() = new_rc;
                    if i % 2 == 0 { *q.opcode_mut() = *r.pick(&Gen::OPCODES); }
                    let qtxt = text::packet(&q);
                    for compressed in [false, true] {
                        let (out2, bytes2) = crate::props::pk::build_out_pub(&q, compressed);
                        let mut c2 = Case::new(format!("{} {}", if compressed { "build.comp" } else { "build" }, qtxt), out2).tag("rcode-replaced");
                        if let Some(b2) = bytes2 {
                            let nib = b2[3] & 0x0F;
                            if nib as u16 != (new_rc as u16) & 0xF { c2 = c2.fail("opt-header-rcode", format!("after replacing the response code {:?} of a parsed message by {:?} the header carries the low bits {}", rc, new_rc, nib)); }
                            let opb = (b2[2] >> 3) & 0x0F;
                            if opb as u16 != q.opcode() as u16 { c2 = c2.fail("opt-header-opcode", format!("opcode field {} after setting {:?} on a parsed message", opb, q.opcode())); }
                            match Packet::parse(&b2) {
                                Ok(q2) => { if q2.rcode() as u16 != new_rc as u16 && !(new_rc as u16 == 15 && q2.rcode() == RCODE::Reserved) { c2 = c2.fail("opt-rcode-replaced", format!("set {:?}, re-parsed {:?}", new_rc, q2.rcode())); } }
                                Err(_) => { c2 = c2.fail("opt-roundtrip", "the re-written message no longer parses".into()); }
                            }
                        }
                        v.push(c2);
                    }
                }
            }
        }
    }
    v
}
