//! C18 — type/class codes and query matching: exhaustive over all 65 536 codes and the full
//! (record type × question type) and (class × qclass) matrices.
use crate::core::*;
use crate::gen::{Gen, CLASSES, N_KINDS, TYPE_CODES};
use simple_dns::rdata::RData;
use simple_dns::*;
use std::convert::TryFrom;

/// IANA "Resource Record (RR) TYPEs" registry (all assigned data types; the library's spelling
/// `RouteThrough` for RT and `NSAP_PTR` for NSAP-PTR is accepted by `same_mnemonic`)
const IANA: [(&str, u16); 96] = [
    ("A", 1), ("NS", 2), ("MD", 3), ("MF", 4), ("CNAME", 5), ("SOA", 6), ("MB", 7), ("MG", 8), ("MR", 9),
    ("NULL", 10), ("WKS", 11), ("PTR", 12), ("HINFO", 13), ("MINFO", 14), ("MX", 15), ("TXT", 16), ("RP", 17),
    ("AFSDB", 18), ("X25", 19), ("ISDN", 20), ("RT", 21), ("NSAP", 22), ("NSAP-PTR", 23), ("SIG", 24), ("KEY", 25),
    ("PX", 26), ("GPOS", 27), ("AAAA", 28), ("LOC", 29), ("NXT", 30), ("EID", 31), ("NIMLOC", 32), ("SRV", 33),
    ("ATMA", 34), ("NAPTR", 35), ("KX", 36), ("CERT", 37), ("A6", 38), ("DNAME", 39), ("SINK", 40), ("OPT", 41),
    ("APL", 42), ("DS", 43), ("SSHFP", 44), ("IPSECKEY", 45), ("RRSIG", 46), ("NSEC", 47), ("DNSKEY", 48),
    ("DHCID", 49), ("NSEC3", 50), ("NSEC3PARAM", 51), ("TLSA", 52), ("SMIMEA", 53), ("HIP", 55), ("NINFO", 56),
    ("RKEY", 57), ("TALINK", 58), ("CDS", 59), ("CDNSKEY", 60), ("OPENPGPKEY", 61), ("CSYNC", 62), ("ZONEMD", 63),
    ("SVCB", 64), ("HTTPS", 65), ("DSYNC", 66), ("SPF", 99), ("UINFO", 100), ("UID", 101), ("GID", 102),
    ("UNSPEC", 103), ("NID", 104), ("L32", 105), ("L64", 106), ("LP", 107), ("EUI48", 108), ("EUI64", 109),
    ("NXNAME", 128), ("TKEY", 249), ("TSIG", 250), ("URI", 256), ("CAA", 257), ("AVC", 258), ("DOA", 259),
    ("AMTRELAY", 260), ("RESINFO", 261), ("WALLET", 262), ("CLA", 263), ("IPN", 264), ("TA", 32768), ("DLV", 32769),
    ("IXFR", 251), ("AXFR", 252), ("MAILB", 253), ("MAILA", 254), ("ANY", 255), ("NB", 32),
];

/// the IANA code of a type given by the library's spelling of its mnemonic
pub fn iana_code(lib_mnemonic: &str) -> Option<u16> {
    IANA.iter().find(|(m, _)| same_mnemonic(lib_mnemonic, m)).map(|(_, c)| *c)
}

fn same_mnemonic(lib: &str, iana: &str) -> bool {
    let norm = |s: &str| s.to_ascii_uppercase().replace('-', "_");
    norm(lib) == norm(iana) || (lib == "RouteThrough" && iana == "RT")
}

fn mnemonic<T: std::fmt::Debug>(t: &T) -> String {
    let s = format!("{:?}", t);
    s.split('(').next().unwrap().to_string()
}

pub fn all_qtypes() -> Vec<QTYPE> {
    let mut q: Vec<QTYPE> = TYPE_CODES.iter().map(|c| QTYPE::TYPE(TYPE::from(*c))).collect();
    q.extend([QTYPE::ANY, QTYPE::MAILB, QTYPE::MAILA, QTYPE::AXFR, QTYPE::IXFR]);
    // questions an application can build for types the library has no layout for: they match records of that very type only
    q.extend([0u16, 52, 99, 250, 256, 65280, 65535].iter().map(|c| QTYPE::TYPE(TYPE::from(*c))));
    q
}

pub fn cases(_tier: &str, seed: u64) -> Vec<Case> {
    let mut v = Vec::new();
    for c in 0..=65535u16 {
        // TYPE
        let t = TYPE::from(c);
        let back = u16::from(t);
        let mut cs = Case::new(format!("type {}", c), format!("{} {}", mnemonic(&t), back)).tag("type");
        if back != c { cs = cs.fail("type-roundtrip", format!("code {} -> {:?} -> {}", c, t, back)); }
        // a named type must carry the mnemonic the IANA registry gives that number; any code may be
        // left unsupported (`Unknown`), none may be aliased to another type's name
        if !matches!(t, TYPE::Unknown(x) if x == c) {
            if matches!(t, TYPE::Unknown(_)) { cs = cs.fail("type-alias", format!("code {} became {:?}", c, t)); }
            else if !IANA.iter().any(|(m, n)| *n == c && same_mnemonic(&mnemonic(&t), m)) {
                cs = cs.fail("type-iana", format!("code {} is reported as {:?}, which is not its IANA mnemonic", c, t));
            }
        }
        v.push(cs);
        // CLASS
        let r = CLASS::try_from(c);
        let out = match &r { Ok(x) => format!("ok {} {}", mnemonic(x), *x as u16), Err(_) => "err".to_string() };
        let mut cs = Case::new(format!("class {}", c), out).tag("class");
        let iana_class = [("IN", 1u16), ("CS", 2), ("CH", 3), ("HS", 4), ("NONE", 254)];
        match (iana_class.iter().find(|(_, n)| *n == c), &r) {
            (Some((m, _)), Ok(x)) => if mnemonic(x) != *m || *x as u16 != c { cs = cs.fail("class-iana", format!("class code {}", c)); },
            (None, Err(_)) => {}
            _ => cs = cs.fail("class-support", format!("class code {}: {:?}", c, r.is_ok())),
        }
        v.push(cs);
        // QTYPE
        let r = QTYPE::try_from(c);
        let out = match &r { Ok(x) => format!("ok {}", u16::from(*x)), Err(_) => "err".to_string() };
        let mut cs = Case::new(format!("qtype {}", c), out).tag("qtype");
        let supported = !matches!(TYPE::from(c), TYPE::Unknown(_)) || (251..=255).contains(&c);
        match &r {
            Ok(x) => {
                if u16::from(*x) != c { cs = cs.fail("qtype-roundtrip", format!("qtype code {}", c)); }
                if !supported { cs = cs.fail("qtype-alias", format!("unsupported qtype code {} accepted as {:?}", c, x)); }
                let want = match c { 251 => Some(QTYPE::IXFR), 252 => Some(QTYPE::AXFR), 253 => Some(QTYPE::MAILB), 254 => Some(QTYPE::MAILA), 255 => Some(QTYPE::ANY), _ => None };
                if let Some(wq) = want { if *x != wq { cs = cs.fail("qtype-iana", format!("qtype code {} is {:?}", c, x)); } }
            }
            Err(_) => if supported { cs = cs.fail("qtype-rejected", format!("supported qtype code {} rejected", c)); },
        }
        v.push(cs);
        // QCLASS
        let r = QCLASS::try_from(c);
        let out = match &r { Ok(x) => format!("ok {}", u16::from(*x)), Err(_) => "err".to_string() };
        let mut cs = Case::new(format!("qclass {}", c), out).tag("qclass");
        let supported = [1u16, 2, 3, 4, 254, 255].contains(&c);
        match &r {
            Ok(x) => if u16::from(*x) != c || !supported { cs = cs.fail("qclass-roundtrip", format!("qclass code {}", c)); },
            Err(_) => if supported { cs = cs.fail("qclass-rejected", format!("qclass code {}", c)); },
        }
        v.push(cs);
    }
    // matching matrices, on constructed records and on the same records after a wire round trip
    let mut g = Gen::new(seed);
    let qtypes = all_qtypes();
    for kind in 0..N_KINDS {
        for rep in 0..2 {
            let rr = g.rr_of(kind);
            let mut p = Packet::new_reply(1);
            p.answers.push(rr.clone());
            let bytes = p.build_bytes_vec().unwrap();
            let parsed = Packet::parse(&bytes).ok().and_then(|p| p.answers.into_iter().next());
            let variants: Vec<(&str, ResourceRecord)> = match parsed { Some(x) => vec![("built", rr.clone()), ("parsed", x)], None => vec![("built", rr.clone())] };
            let wire_code = u16::from_be_bytes({ let n = crate::text::unhex(&crate::text::hex(&bytes)).unwrap(); let off = 12 + simple_dns::verif::name_len(&rr.name); [n[off], n[off + 1]] });
            for (how, r) in variants {
                let code = u16::from(r.rdata.type_code());
                let mut c0 = Case::oracle_only().tag("type_code");
                if code != wire_code || r.rdata.type_code() != TYPE::from(wire_code) {
                    c0 = c0.fail("type-code-faithful", format!("{} record written with type code {} reports {:?}", how, wire_code, r.rdata.type_code()));
                }
                v.push(c0);
                if rep > 0 { continue; }
                for q in &qtypes {
                    let m = r.match_qtype(*q);
                    let mut c = Case::new(format!("match.qtype {} {}", code, u16::from(*q)), (m as u8).to_string()).tag("match.qtype");
                    let t = TYPE::from(wire_code);
                    let want = match q {
                        QTYPE::ANY => Some(true),
                        QTYPE::TYPE(x) => Some(*x == t),
                        QTYPE::MAILB => Some(t == TYPE::MB || t == TYPE::MG || t == TYPE::MR),
                        _ => None, // AXFR, IXFR, MAILA: outside the property's quantifier, only compared with the model
                    };
                    if let Some(wm) = want { if wm != m { c = c.fail("match-qtype", format!("{} record of type {:?} vs question {:?}: {}", how, t, q, m)); } }
                    v.push(c);
                }
            }
        }
    }
    // records whose RDATA names another type (an RRSIG covering t, an NSEC whose bitmap lists t): they are records of
    // their own type, whatever they speak about - one per supported type, against the whole question list
    for code in TYPE_CODES.iter() {
        let covering = [
            RData::RRSIG(simple_dns::rdata::RRSIG { type_covered: *code, algorithm: 8, labels: 2, original_ttl: 60, signature_expiration: 2, signature_inception: 1, key_tag: 7, signer_name: Name::new_unchecked("example"), signature: vec![1u8, 2, 3].into() }),
            RData::NSEC(simple_dns::rdata::NSEC { next_name: Name::new_unchecked("b.example"), type_bit_maps: vec![simple_dns::rdata::TypeBitMap { window_block: (*code >> 8) as u8, bitmap: { let mut m = vec![0u8; (*code as usize % 256) / 8 + 1]; m[(*code as usize % 256) / 8] = 0x80 >> (*code % 8); m.into() } }] }),
        ];
        for rd in covering {
            let own = rd.type_code();
            let r = ResourceRecord::new(Name::new_unchecked("a.example"), CLASS::IN, 60, rd);
            let mut c = Case::oracle_only().tag("covering-records");
            for q in &qtypes {
                let want = match q { QTYPE::ANY => Some(true), QTYPE::TYPE(x) => Some(*x == own), QTYPE::MAILB => Some(false), _ => None };
                if let Some(w) = want { if r.match_qtype(*q) != w { c = c.fail("match-qtype", format!("a {:?} record speaking about type {} vs question {:?}: {}", own, code, q, !w)); } }
            }
            v.push(c);
        }
    }
    // records that carry a type without typed RDATA: RDLENGTH 0 on the wire (parsed), `RData::Empty(t)`
    // and `RData::NULL(t, ..)` built by hand; the type a record matches is the type it reports
    for (_, code) in IANA.iter().filter(|(_, c)| !matches!(TYPE::from(*c), TYPE::Unknown(_))) {
        let t = TYPE::from(*code);
        let mut wire = vec![0u8, 1, 0x80, 0, 0, 0, 0, 1, 0, 0, 0, 0, 1, b'a', 0];
        wire.extend_from_slice(&code.to_be_bytes());
        wire.extend_from_slice(&[0, 1, 0, 0, 0, 9, 0, 0]);
        let mut variants: Vec<(&str, ResourceRecord)> = vec![
            ("empty", ResourceRecord::new(Name::new_unchecked("a"), CLASS::IN, 9, RData::Empty(t))),
            ("null-carried", ResourceRecord::new(Name::new_unchecked("a"), CLASS::IN, 9, RData::NULL(*code, simple_dns::rdata::NULL::new(b"x").unwrap()))),
        ];
        if let Some(x) = Packet::parse(&wire).ok().and_then(|p| p.answers.into_iter().next()) { variants.push(("parsed-empty", x.into_owned())); }
        for (how, r) in variants {
            if u16::from(r.rdata.type_code()) != *code { continue; } // what the record reports decides (NULL-carried OPT etc.)
            for q in &qtypes {
                let m = r.match_qtype(*q);
                let mut c = Case::new(format!("match.qtype {} {}", code, u16::from(*q)), (m as u8).to_string()).tag("match.qtype").tag(how);
                let want = match q { QTYPE::ANY => Some(true), QTYPE::TYPE(x) => Some(*x == t), QTYPE::MAILB => Some(t == TYPE::MB || t == TYPE::MG || t == TYPE::MR), _ => None };
                if let Some(wm) = want { if wm != m { c = c.fail("match-qtype", format!("{} record of type {:?} vs question {:?}: {}", how, t, q, m)); } }
                v.push(c);
            }
        }
    }
    // every class word on a received record, with and without RDATA: the supported classes (bit 15 apart)
    // are accepted and reported as they are, every other class is an error - never an alias
    // (the record's type does not matter to its class: an address with RDATA, a TXT, an SRV and an unassigned type without,
    // an unassigned type with opaque RDATA - in the answer section and, for the first two, in the additional section)
    let shapes: [(u16, &[u8], usize); 7] = [(16, &[], 1), (1, &[10, 0, 0, 1], 1), (33, &[], 1), (99, &[], 1), (65280, &[1, 2, 3], 1), (16, &[], 3), (1, &[10, 0, 0, 1], 3)];
    for (ty, rd, section) in shapes {
        for w in 0..=65535u16 {
            // the first two shapes sweep every word, the others every 13th and the neighbourhood of the supported codes
            if !(ty == 16 && section == 1 || ty == 1 && section == 1) && w % 13 != 0 && !matches!(w & 0x7FFF, 0..=6 | 250..=258) { continue; }
            let mut wire = vec![0u8, 1, 0x80, 0, 0, 0, 0, 0, 0, 0, 0, 0, 1, b'a', 0];
            wire[5 + 2 * section] = 1;
            wire.extend_from_slice(&ty.to_be_bytes());
            wire.extend_from_slice(&w.to_be_bytes());
            wire.extend_from_slice(&[0, 0, 0, 9, 0, rd.len() as u8]);
            wire.extend_from_slice(rd);
            let parsed = Packet::parse(&wire);
            let out = match &parsed { Ok(p) => format!("ok {}", crate::text::packet(p)), Err(_) => "err".to_string() };
            let mut c = Case::new(format!("parse {}", crate::text::hex(&wire)), out).tag("record-class");
            let low = w & 0x7FFF;
            let supported = matches!(low, 1 | 2 | 3 | 4 | 254);
            match &parsed {
                Ok(p) => { let rec = if section == 1 { p.answers.first() } else { p.additional_records.first() };
                           if !supported { c = c.fail("class-alias", format!("a record of type {} with class word {:#06x} is accepted as {:?}", ty, w, rec.map(|r| r.class))); }
                           else if rec.map(|r| (r.class as u16, r.cache_flush)) != Some((low, w & 0x8000 != 0)) { c = c.fail("class-read", format!("type {} class word {:#06x}", ty, w)); } }
                Err(_) => { if supported { c = c.fail("class-rejected", format!("a record of the supported class {:#06x} is rejected", w)); } }
            }
            v.push(c);
        }
    }
    // type and class crossed: under EVERY type word (the meta types TKEY / TSIG / IXFR .. ANY that usually travel with class
    // ANY among them) a class the library does not support is an error and a supported one is read as it is - no pair of
    // words makes an exception
    for ty in 0..=65535u16 {
        if ty == 41 { continue; } // (an OPT record carries the sender's UDP payload size where other records carry a class)
        let mut c = Case::oracle_only().tag("type-class-crossed");
        for w in [0u16, 5, 253, 255, 256, 0x80FF, 0x8000, 65535, 1, 2, 3, 4, 254, 0x8001, 0x80FE] {
            let mut wire = vec![0u8, 1, 0x80, 0, 0, 0, 0, 1, 0, 0, 0, 0, 1, b'a', 0];
            wire.extend_from_slice(&ty.to_be_bytes());
            wire.extend_from_slice(&w.to_be_bytes());
            wire.extend_from_slice(&[0, 0, 0, 9, 0, 0]);
            let low = w & 0x7FFF;
            let supported = matches!(low, 1 | 2 | 3 | 4 | 254);
            match Packet::parse(&wire) {
                Ok(p) => { let rec = p.answers.first();
                           if !supported { c = c.fail("class-alias", format!("a record of type {} with class word {:#06x} is accepted as {:?}", ty, w, rec.map(|r| r.class))); break; }
                           else if rec.map(|r| (r.class as u16, r.cache_flush)) != Some((low, w & 0x8000 != 0)) { c = c.fail("class-read", format!("type {} class word {:#06x}", ty, w)); break; } }
                Err(_) => { if supported { c = c.fail("class-rejected", format!("a record of type {} and the supported class {:#06x} is rejected", ty, w)); break; } }
            }
        }
        v.push(c);
    }
    // every TYPE word on a received record, without RDATA (every type may come that way: RFC 2136 prerequisites and
    // deletions) and, for the types the library has no layout for, with opaque RDATA: the record is accepted, reports
    // the type its code denotes, and so does an owned copy of it, which also writes that code back
    for w in 0..=65535u16 {
        let t = TYPE::from(w);
        let shapes: &[&[u8]] = if matches!(t, TYPE::Unknown(_)) || w == 10 { &[&[], &[1, 2, 3]] } else { &[&[]] };
        for rd in shapes {
            let mut wire = vec![0u8, 1, 0x80, 0, 0, 0, 0, 1, 0, 0, 0, 0, 1, b'a', 0];
            wire.extend_from_slice(&w.to_be_bytes());
            wire.extend_from_slice(&[0, 1, 0, 0, 0, 9, 0, rd.len() as u8]);
            wire.extend_from_slice(rd);
            let parsed = Packet::parse(&wire);
            let out = match &parsed { Ok(p) => format!("ok {}", crate::text::packet(p)), Err(_) => "err".to_string() };
            let mut c = Case::new(format!("parse {}", crate::text::hex(&wire)), out).tag("record-type");
            if w > 600 && w % 7 != 0 && !(32700..32900).contains(&w) { c.proj = Proj::None; c.op = String::new(); }
            match &parsed {
                Err(_) => { c = c.fail("type-rejected", format!("a record with TYPE word {} and {} bytes of RDATA is rejected", w, rd.len())); }
                Ok(p) => match p.answers.first() {
                    None => { c = c.fail("type-rejected", format!("a record with TYPE word {} is dropped", w)); }
                    Some(r) => {
                        let owned = r.clone().into_owned();
                        let mut q = Packet::new_reply(1);
                        q.answers.push(owned.clone());
                        let back = q.build_bytes_vec().ok();
                        if r.rdata.type_code() != t { c = c.fail("type-code-faithful", format!("a received record with TYPE word {} reports {:?}", w, r.rdata.type_code())); }
                        else if owned.rdata.type_code() != t { c = c.fail("type-code-faithful", format!("the owned copy of a received record with TYPE word {} reports {:?}", w, owned.rdata.type_code())); }
                        else if back.as_ref().map(|b| b.len() > 16 && b[15..17] == w.to_be_bytes()) != Some(true) { c = c.fail("type-code-faithful", format!("the owned copy of a received record with TYPE word {} is written under another code", w)); }
                        else if r.match_qtype(QTYPE::ANY) != true || owned.match_qtype(QTYPE::TYPE(t)) != true { c = c.fail("match-qtype", format!("a received record of type {} does not match its own type / ANY", w)); }
                        // ... and no other type: the next code, an unsupported one, a supported one
                        else if let Some(other) = [w.wrapping_add(1), 99, 52, 65280, 1, 16].iter().map(|c| TYPE::from(*c)).find(|o| *o != t && r.match_qtype(QTYPE::TYPE(*o))) { c = c.fail("match-qtype", format!("a received record of type {} matches a question for {:?}", w, other)); }
                    }
                },
            }
            v.push(c);
        }
    }
    // every QTYPE word and every QCLASS word on a received question: a supported code is accepted and reported as it
    // is (the top bit of the class word being the mDNS unicast-response bit), an unsupported one is an error - not an
    // alias, and not a question of an `Unknown` type
    for which in 0..2 {
        for w in 0..=65535u16 {
            // the question stands in a query, in a response (QR set, with flags and a response code), after another question,
            // or before a record - what is accepted does not depend on where
            let shape = (w as usize + which) % 4;
            let mut wire = match shape { 1 => vec![0u8, 1, 0x85, 0x83, 0, 1, 0, 0, 0, 0, 0, 0], 2 => vec![0u8, 1, 0, 0, 0, 2, 0, 0, 0, 0, 0, 0, 1, b'b', 0, 0, 1, 0, 1], 3 => vec![0u8, 1, 0x84, 0, 0, 1, 0, 1, 0, 0, 0, 0], _ => vec![0u8, 1, 0, 0, 0, 1, 0, 0, 0, 0, 0, 0] };
            wire.extend_from_slice(&[1, b'a', 0]);
            if which == 0 { wire.extend_from_slice(&w.to_be_bytes()); wire.extend_from_slice(&[0, 1]); } else { wire.extend_from_slice(&[0, 1]); wire.extend_from_slice(&w.to_be_bytes()); }
            if shape == 3 { wire.extend_from_slice(&[1, b'a', 0, 0, 1, 0, 1, 0, 0, 0, 9, 0, 4, 10, 0, 0, 1]); }
            let parsed = Packet::parse(&wire);
            let out = match &parsed { Ok(p) => format!("ok {}", crate::text::packet(p)), Err(_) => "err".to_string() };
            let mut c = Case::new(format!("parse {}", crate::text::hex(&wire)), out).tag(if which == 0 { "question-type" } else { "question-class" });
            // the model is asked about every 5th word and all the low ones; the oracle below judges every word
            if w > 600 && w % 5 != 0 && !(32700..32900).contains(&w) { c.proj = Proj::None; c.op = String::new(); }
            let supported = if which == 0 { !matches!(TYPE::from(w), TYPE::Unknown(_)) || (251..=255).contains(&w) } else { [1u16, 2, 3, 4, 254, 255].contains(&(w & 0x7FFF)) };
            match &parsed {
                Ok(p) => {
                    let q = p.questions.last();
                    if !supported { c = c.fail("question-alias", format!("a question with {} word {:#06x} is accepted as {:?}", if which == 0 { "QTYPE" } else { "QCLASS" }, w, q.map(|q| (q.qtype, q.qclass)))); }
                    else if which == 0 && q.map(|q| u16::from(q.qtype)) != Some(w) { c = c.fail("question-read", format!("QTYPE word {:#06x}", w)); }
                    else if which == 1 && q.map(|q| (u16::from(q.qclass), q.unicast_response)) != Some((w & 0x7FFF, w & 0x8000 != 0)) { c = c.fail("question-read", format!("QCLASS word {:#06x}", w)); }
                }
                Err(_) => { if supported { c = c.fail("question-rejected", format!("a question with the supported {} word {:#06x} is rejected", if which == 0 { "QTYPE" } else { "QCLASS" }, w)); } }
            }
            v.push(c);
        }
    }
    // class matching looks at the class alone, whatever the record's type: an address, a TXT, opaque and empty
    // RDATA, and an OPT-typed record built by hand (its CLASS word on the wire is a payload size, the field is a class)
    for kind in 0..5usize {
    for (cl, flush) in CLASSES.iter().flat_map(|c| [(*c, false), (*c, true)]) {
        let rd = match kind {
            0 => RData::A(simple_dns::rdata::A { address: 1 }),
            1 => RData::TXT(simple_dns::rdata::TXT::new().with_string("k=v").unwrap()),
            2 => RData::NULL(65280, simple_dns::rdata::NULL::new(&[1, 2]).unwrap()),
            3 => RData::Empty(TYPE::MX),
            _ => RData::OPT(simple_dns::rdata::OPT { opt_codes: vec![], udp_packet_size: 1232, version: 0 }),
        };
        let rr = ResourceRecord::new(Name::new_unchecked("a"), cl, 0, rd).with_cache_flush(flush);
        let mut qs: Vec<QCLASS> = CLASSES.iter().map(|c| QCLASS::CLASS(*c)).collect();
        qs.push(QCLASS::ANY);
        for q in qs {
            let m = rr.match_qclass(q);
            let mut c = Case::new(format!("match.qclass {} {}", cl as u16, u16::from(q)), (m as u8).to_string()).tag("match.qclass");
            let want = match q { QCLASS::ANY => true, QCLASS::CLASS(x) => x == cl };
            if want != m { c = c.fail("match-qclass", format!("class {:?} (cache-flush {}) vs {:?}, record kind {}", cl, flush, q, kind)); }
            if kind != 0 { c.proj = Proj::None; c.op = String::new(); }
            v.push(c);
        }
    }
    }
    v
}
