//! C14 (datagram handling never panics; replies parse) and C15 (faithful discovery) through the
//! `simple_mdns::verif` hooks; C14 additionally over loopback multicast.
use crate::core::*;
use crate::gen::{mk_name, Gen};
use crate::props::pk::hostile_messages;
use crate::rng::Rng;
use crate::text;
use simple_dns::rdata::*;
use simple_dns::*;
use simple_mdns::verif::{build_reply, instance_from_records, sync_add_response_to_resources, DomainResourceFilter, ResourceRecordManager};
use simple_mdns::InstanceInformation;
use std::collections::HashMap;
use std::net::{IpAddr, Ipv4Addr, Ipv6Addr};

fn sorted(mut v: Vec<String>) -> String {
    v.sort();
    let mut s = v.len().to_string();
    for x in v { s.push_str(" ; "); s.push_str(&x); }
    s
}

fn reply_text(bytes: &Option<Vec<u8>>) -> String {
    match bytes {
        None => "none".to_string(),
        Some(b) => match Packet::parse(b) {
            Ok(r) => format!("some {} {} answers {} additional {}", r.id(), text::flag_bits(&r), sorted(r.answers.iter().map(text::rr).collect()), sorted(r.additional_records.iter().map(text::rr).collect())),
            Err(_) => "unparseable".to_string(),
        },
    }
}

/// the responder's loop body on one datagram, with the library's own calls in the library's order
fn responder_step(mgr: &ResourceRecordManager, d: &[u8]) -> Option<Vec<u8>> {
    if header_buffer::has_flags(d, PacketFlag::RESPONSE).unwrap_or(true) { return None; }
    match Packet::parse(d) {
        Ok(packet) => match build_reply(packet, mgr) {
            Some((reply, _)) => reply.build_bytes_vec_compressed().ok(),
            None => None,
        },
        Err(err) => { let _ = format!("Received Invalid packet {err}"); None }
    }
}

fn hostile_name(r: &mut Rng) -> Name<'static> {
    // one in eight: the longest legal name (255 octets on the wire)
    if r.chance(1, 8) { return mk_name(&[vec![b'm'; 63], vec![b'n'; 63], vec![b'o'; 63], vec![b'p'; 55], b"local".to_vec()]); }
    let k = r.range(1, 3) as usize;
    let mut ls: Vec<Vec<u8>> = (0..k).map(|_| match r.below(4) { 0 => vec![0xFF, 0xFE], 1 => vec![b'a'; 63], 2 => b"x.y\\z".to_vec(), _ => b"srv".to_vec() }).collect();
    ls.push(b"local".to_vec());
    mk_name(&ls)
}

pub fn c14(tier: &str, seed: u64) -> Vec<Case> {
    let thorough = tier == "thorough";
    let mut r = Rng::new(seed);
    let mut g = Gen::new(seed ^ 0x14);
    let mut v = vec![];
    let service = vec![b"_srv".to_vec(), b"_tcp".to_vec(), b"local".to_vec()];
    let full = { let mut f = vec![b"me".to_vec()]; f.extend(service.clone()); f };
    let datagrams: Vec<(Vec<u8>, String)> = {
        let mut d: Vec<(Vec<u8>, String)> = vec![(vec![], "empty".into())];
        for len in 1..13 { d.push((r.bytes(len), "short".into())); }
        d.extend(hostile_messages(tier, seed ^ 0xD4).into_iter().filter(|(b, _)| b.len() <= 9000).take(if thorough { 40000 } else { 6000 }));
        // pointer structures hidden in the transaction id or in opaque RDATA, reached through a legal
        // backward pointer; OPT records whose RDLENGTH overruns the datagram
        for a in [0xC0u8, 0x00, 0x01] { for b in [0x00u8, 0x01, 0x0C] { for low in [0u8, 1] {
            d.push((vec![a, b, 0, 0, 0, 1, 0, 0, 0, 0, 0, 0, 0xC0, low, 0, 1, 0, 1], "hidden-pointer-structure".into()));
            d.push((vec![a, b, 0x84, 0, 0, 0, 0, 1, 0, 0, 0, 0, 0xC0, low, 0, 1, 0, 1, 0, 0, 0, 9, 0, 4, 1, 2, 3, 4], "hidden-pointer-structure".into()));
        } } }
        // names that are pointers into the header, the label there running to the very end of the datagram
        for m in crate::props::c01::pointer_into_header_messages() {
            let mut asq = m.clone();
            d.push((m, "pointer-into-header".into()));
            asq[2] |= 0x80; // the same bytes as a response (the discovery listener ingests those)
            d.push((asq, "pointer-into-header".into()));
        }
        for junk in [[0xC0u8, 0x19, 0, 0], [0xC0, 0x1A, 0xC0, 0x19], [0xC0, 0x17, 0xC0, 0x17]] {
            let mut m = vec![0u8, 0, 0x84, 0, 0, 0, 0, 2, 0, 0, 0, 0, 0, 0, 1, 0, 1, 0, 0, 0, 0, 0, 4];
            m.extend_from_slice(&junk);
            for target in [23u8, 25] { let mut m2 = m.clone(); m2.extend_from_slice(&[0xC0, target, 0, 1, 0, 1, 0, 0, 0, 0, 0, 4, 1, 2, 3, 4]); d.push((m2, "hidden-pointer-structure".into())); }
        }
        // well-formed announcements and goodbyes for the watched service (what Avahi / Bonjour peers send):
        // every record kind a peer may attach, TTLs 0 / 1 / 2^31 / 2^32-1, cache-flush bits, instance labels
        // with spaces, dots, non-UTF-8 bytes and 63 bytes, the listener's own instance among them
        for i in 0..(if thorough { 4000 } else { 500 }) {
            let inst_label: Vec<u8> = match r.below(6) { 0 => b"me".to_vec(), 1 => b"My Printer".to_vec(), 2 => vec![0xFF, 0xFE, b'.'], 3 => vec![b'a'; 63], 4 => b"x.y\\z".to_vec(), _ => b"peer".to_vec() };
            let mut inst = vec![inst_label];
            inst.extend(service.clone());
            let iname = mk_name(&inst);
            let mut p = Packet::new_reply(if r.chance(1, 2) { 0 } else { r.next() as u16 });
            if r.chance(1, 2) { p.set_flags(PacketFlag::AUTHORITATIVE_ANSWER); }
            let n = r.range(1, 5);
            for k in 0..n {
                let rd = match r.below(7) {
                    0 => RData::PTR(PTR(iname.clone())),
                    1 => RData::SRV(simple_dns::rdata::SRV { priority: 0, weight: 0, port: r.next() as u16, target: if r.chance(1, 2) { iname.clone() } else { hostile_name(&mut r) } }),
                    2 => RData::A(A { address: r.next() as u32 }),
                    3 => RData::AAAA(simple_dns::rdata::AAAA { address: r.int(128) }),
                    4 => { let mut t = simple_dns::rdata::TXT::new(); for _ in 0..r.below(3) { let l = r.below(6) as usize; t.add_char_string(crate::gen::mk_cs(&r.bytes(l))); }
                           if r.chance(1, 2) { t.add_char_string(crate::gen::mk_cs(*r.pick(&[&b"k\xff=1"[..], b"\xff=1", b"\xff\xfe=", b"a\xc3=b", b"=\xff", b"k=\xff", b"\xe2\x82=x"]))); }
                           RData::TXT(t) }
                    _ => g.rr_of(*r.pick(&[10usize, 16, 38, 40])).rdata,
                };
                let owner = if matches!(rd, RData::PTR(_)) { mk_name(&service) } else { iname.clone() };
                let mut rr = ResourceRecord::new(owner, CLASS::IN, *r.pick(&[0u32, 0, 1, 120, 4500, 0x8000_0000, u32::MAX]), rd);
                rr.cache_flush = r.chance(1, 3);
                if k % 2 == 0 { p.answers.push(rr) } else { p.additional_records.push(rr) }
            }
            if let Ok(b) = if i % 2 == 0 { p.build_bytes_vec_compressed() } else { p.build_bytes_vec() } { d.push((b, "announcement".into())); }
        }
        // records of the rare types with their RDATA cut at every length (RDLENGTH consistent), sent as a
        // probe and as a response under the watched service
        for kind in [34usize, 34, 34, 34, 34, 34, 27, 38, 25, 13, 10, 19, 21, 26, 24, 36] {
            let mut rr = g.rr_of(kind);
            rr.name = mk_name(&{ let mut f = vec![b"peer".to_vec()]; f.extend(service.clone()); f });
            let mut p = Packet::new_reply(0);
            p.answers.push(rr);
            let bytes = match p.build_bytes_vec() { Ok(b) => b, Err(_) => continue };
            if bytes.len() > 500 { continue; }
            if let Some(w) = crate::walker::walk(&bytes) {
                let e = &w.sections[0][0];
                for k in 0..e.rd_len {
                    for flags in [0x84u8, 0x00] {
                        let mut m = bytes[..e.rd_start + k].to_vec();
                        m[e.rd_start - 2..e.rd_start].copy_from_slice(&(k as u16).to_be_bytes());
                        m[2] = flags;
                        if flags == 0 { m[5] = 0; m[7] = 0; m[9] = 1; } // a probe carries it in the authority section
                        d.push((m, "rdata-cut".into()));
                    }
                }
            }
        }
        // IPSECKEY with each of its four gateway shapes (none, IPv4, IPv6, a name) and an unassigned one, cut at every
        // length - built on the wire, so that every shape is there whatever the generator draws
        for gateway in [vec![0u8], vec![1, 192, 0, 2, 1], { let mut x = vec![2u8]; x.extend_from_slice(&[0x20, 1, 0x0d, 0xb8, 0, 0, 0, 0, 0, 0, 0, 0, 0, 0, 0, 1]); x }, vec![3, 2, b'g', b'w', 3, b'o', b'r', b'g', 0], vec![9, 1, 2, 3]] {
            let mut rdata = vec![10u8, gateway[0], 2];
            rdata.extend_from_slice(&gateway[1..]);
            rdata.extend_from_slice(&[0xAA, 0xBB, 0xCC, 0xDD, 0xEE]);
            let owner = mk_name(&{ let mut f = vec![b"peer".to_vec()]; f.extend(service.clone()); f });
            for k in 0..=rdata.len() {
                for flags in [0x84u8, 0x00] {
                    let mut m = vec![0u8, 0, flags, 0, 0, 0, 0, 1, 0, 0, 0, 0];
                    if flags == 0 { m[7] = 0; m[9] = 1; }
                    for l in owner.get_labels() { m.push(l.len() as u8); m.extend_from_slice(l.as_bytes()); }
                    m.push(0);
                    m.extend_from_slice(&[0, 45, 0, 1, 0, 0, 0, 120]);
                    m.extend_from_slice(&(k as u16).to_be_bytes());
                    m.extend_from_slice(&rdata[..k]);
                    d.push((m, "rdata-cut".into()));
                }
            }
        }
        // OPT options whose length field is at the top of the 16-bit range, with an RDLENGTH that fits the
        // datagram, one that does not, and the largest
        for olen in [0x7FFFu16, 0x8000, 0xFFFB, 0xFFFC, 0xFFFD, 0xFFFE, 0xFFFF] { for flags in [0u8, 0x84] { for rdlen in [4u16, 8, 0xFFFF] {
            let mut m = vec![0u8, 7, flags, 0, 0, 0, 0, 0, 0, 0, 0, 1, 0, 0, 41, 4, 0, 0, 0, 0, 0];
            m.extend_from_slice(&rdlen.to_be_bytes());
            m.extend_from_slice(&[0, 10]);
            m.extend_from_slice(&olen.to_be_bytes());
            m.extend_from_slice(&[1, 2, 3, 4]);
            d.push((m, "opt-option-length".into()));
        } } }
        for extra in [1u16, 4, 100, 60000] { for flags in [0u8, 0x84] {
            let mut m = vec![0u8, 7, flags, 0, 0, 0, 0, 0, 0, 0, 0, 1, 0, 0, 41, 4, 0, 0, 0, 0, 0];
            m.extend_from_slice(&(4 + extra).to_be_bytes());
            m.extend_from_slice(&[0, 10, 0, 0]);
            d.push((m, "opt-overrun".into()));
        } }
        d
    };
    // stores as the services build them from what the application passes in: an instance whose one attribute entry
    // (`key=value`) is 250 .. 260 bytes long - the constructors accept what fits a character-string and refuse the rest;
    // whatever they accept must come out in replies that parse, with the attribute intact
    for entry_len in 250usize..=260 {
        let key = "k";
        let val = "v".repeat(entry_len - 2);
        let inst = InstanceInformation::new("edge".to_string()).with_ip_address(IpAddr::V4(Ipv4Addr::new(10, 3, 3, 3))).with_port(8400).with_attribute(key.to_string(), Some(val.clone()));
        let fullname = mk_name(&[b"edge".to_vec(), b"_srv".to_vec(), b"_tcp".to_vec(), b"local".to_vec()]);
        let recs = match std::panic::catch_unwind(|| inst.clone().into_records(&fullname, 120)) { Ok(Ok(r)) => r, Ok(Err(_)) => { v.push(Case::oracle_only().tag("attribute-boundary").tag("refused")); continue; } Err(_) => { v.push(Case::oracle_only().tag("attribute-boundary").fail("responder-panic", format!("into_records panics on an attribute entry of {} bytes", entry_len))); continue; } };
        let mut mgr: ResourceRecordManager<'static> = ResourceRecordManager::new();
        for rr in recs { mgr.add_authoritative_resource(rr); }
        let mut c = Case::oracle_only().tag("attribute-boundary").tag("accepted");
        if entry_len > 255 { c = c.fail("overlong-attribute-accepted", format!("an attribute entry of {} bytes does not fit a character-string and was accepted", entry_len)); }
        for qt in [QTYPE::TYPE(TYPE::TXT), QTYPE::ANY] {
            let mut q = Packet::new_query(78);
            q.questions.push(Question::new(fullname.clone(), qt, CLASS::IN.into(), false));
            let d = q.build_bytes_vec().unwrap();
            let mref = &mgr;
            match std::panic::catch_unwind(std::panic::AssertUnwindSafe(|| responder_step(mref, &d))) {
                Err(_) => { c = c.fail("responder-panic", format!("attribute entry of {} bytes: the responder panics", entry_len)); }
                Ok(None) => { c = c.fail("reply-differs", format!("attribute entry of {} bytes: no reply to a question for the registered TXT record", entry_len)); }
                Ok(Some(b)) => match Packet::parse(&b) {
                    Err(_) => { c = c.fail("reply-unparseable", format!("attribute entry of {} bytes: the reply is not a parseable DNS message", entry_len)); }
                    Ok(rp) => {
                        let ok = rp.answers.iter().any(|a| match &a.rdata { RData::TXT(t) => t.attributes().get(key).cloned().flatten().as_deref() == Some(val.as_str()), _ => false });
                        if !ok { c = c.fail("reply-differs", format!("attribute entry of {} bytes: the attribute does not come back in the reply", entry_len)); }
                    }
                },
            }
        }
        v.push(c);
    }
    // a reply beyond 16 KiB: one name answering with 320 TXT records and an SRV record whose target owns
    // two address records, so that the target's name first appears past offset 16383 and is then used
    // again; the reply must still be a parseable message with the same records
    for variant in 0..(if thorough { 4 } else { 1 }) {
        let x = mk_name(&[b"big".to_vec(), b"_srv".to_vec(), b"_tcp".to_vec(), b"local".to_vec()]);
        let t = mk_name(&[b"target-host".to_vec(), vec![b'h'; 20 + variant], b"local".to_vec()]);
        let mut mgr: ResourceRecordManager<'static> = ResourceRecordManager::new();
        let mut ops = String::new();
        let mut add = |mgr: &mut ResourceRecordManager<'static>, rr: ResourceRecord<'static>| { ops.push_str(&format!(" A {}", text::rr(&rr))); mgr.add_authoritative_resource(rr); };
        for k in 0..320u32 {
            let mut txt = simple_dns::rdata::TXT::new();
            txt.add_char_string(crate::gen::mk_cs(format!("record-{:04}-{}", k, "p".repeat(36)).as_bytes()));
            add(&mut mgr, ResourceRecord::new(x.clone(), CLASS::IN, 120, RData::TXT(txt)));
        }
        add(&mut mgr, ResourceRecord::new(x.clone(), CLASS::IN, 120, RData::SRV(simple_dns::rdata::SRV { priority: 0, weight: 0, port: 80, target: t.clone() })));
        add(&mut mgr, ResourceRecord::new(t.clone(), CLASS::IN, 120, RData::A(A { address: 0x0A000001 })));
        add(&mut mgr, ResourceRecord::new(t.clone(), CLASS::IN, 120, RData::AAAA(simple_dns::rdata::AAAA { address: 1 })));
        let mut q = Packet::new_query(77);
        q.questions.push(Question::new(x.clone(), QTYPE::ANY, CLASS::IN.into(), false));
        let d = q.build_bytes_vec().unwrap();
        watch("big reply");
        let mref = &mgr;
        let dd = d.clone();
        let res = std::panic::catch_unwind(std::panic::AssertUnwindSafe(|| responder_step(mref, &dd)));
        let out = match &res { Ok(b) => format!("ok {}", reply_text(b)), Err(_) => "panic".to_string() };
        let mut c = Case::new(format!("pipe{} PR {} 5", ops, text::hex(&d)), out.clone()).tag("big-reply").tag("responder");
        if out == "panic" { c = c.fail("responder-panic", "the responder's handling of a datagram panicked".into()); }
        if out.contains("unparseable") { c = c.fail("reply-unparseable", "a reply larger than 16 KiB is not a parseable DNS message".into()); }
        match &res { Ok(Some(b)) if b.len() > 16600 => { c = c.tag("replied"); if let Ok(rp) = Packet::parse(b) { if rp.answers.len() != 321 || rp.additional_records.len() != 2 || rp.additional_records.iter().any(|r| r.name != t) { c = c.fail("reply-differs", "the records of a reply larger than 16 KiB do not read back as registered".into()); } } }
            Ok(_) => { c = c.fail("big-reply-not-built", "the large reply was not produced".into()); } Err(_) => {} }
        v.push(c);
    }
    // a store holding a record in a state the public fields allow but no parser produces (NSEC windows
    // out of order / repeated); the reply to a question that selects it must still be a parseable message
    for k in 0..(if thorough { 60 } else { 12 }) {
        let owner = mk_name(&[b"nsec".to_vec(), b"local".to_vec()]);
        let n = r.range(2, 4);
        let mut maps: Vec<simple_dns::rdata::TypeBitMap> = (0..n).map(|_| { let l = r.range(1, 4) as usize; simple_dns::rdata::TypeBitMap { window_block: r.below(6) as u8, bitmap: r.bytes(l).into() } }).collect();
        // distinct windows (a window may appear once, RFC 4034 4.1.2), held in descending or rotated order
        maps.sort_by_key(|m| std::cmp::Reverse(m.window_block)); maps.dedup_by_key(|m| m.window_block);
        if k % 2 == 1 && maps.len() > 1 { maps.rotate_left(1); }
        let rec = ResourceRecord::new(owner.clone(), CLASS::IN, 120, RData::NSEC(simple_dns::rdata::NSEC { next_name: owner.clone(), type_bit_maps: maps }));
        let mut mgr: ResourceRecordManager<'static> = ResourceRecordManager::new();
        mgr.add_authoritative_resource(rec.clone());
        let mut q = Packet::new_query(9);
        q.questions.push(Question::new(owner.clone(), if k % 3 == 0 { QTYPE::ANY } else { TYPE::NSEC.into() }, CLASS::IN.into(), false));
        let d = q.build_bytes_vec().unwrap();
        let mref = &mgr;
        let dd = d.clone();
        watch("unnormalised store value");
        let res = std::panic::catch_unwind(std::panic::AssertUnwindSafe(|| responder_step(mref, &dd)));
        let out = match &res { Ok(b) => format!("ok {}", reply_text(b)), Err(_) => "panic".to_string() };
        let mut c = Case::oracle_only().tag("unnormalised-store-value").tag("responder");
        if out == "panic" { c = c.fail("responder-panic", "the responder's handling of a datagram panicked".into()); }
        if out.contains("unparseable") { c = c.fail("reply-unparseable", "the reply carrying an NSEC record whose windows are held out of order is not a parseable DNS message".into()); }
        v.push(c);
    }
    let mut it = 0usize;
    for (d, tag) in datagrams {
        it += 1;
        // a store holding arbitrary records, some with hostile names, some matching the datagram's questions
        let mut ops = String::new();
        let mut mgr: ResourceRecordManager<'static> = ResourceRecordManager::new();
        watch(&format!("parse {}", text::hex(&d)));
        let dq = d.clone();
        let qnames: Vec<Name<'static>> = std::panic::catch_unwind(move || Packet::parse(&dq).map(|p| p.questions.iter().map(|q| q.qname.clone().into_owned()).collect::<Vec<_>>()).unwrap_or_default()).unwrap_or_default();
        for _ in 0..r.below(4) {
            let mut rr = if r.chance(1, 2) { g.rr_of(*r.pick(&[0usize, 1, 8, 13, 16])) } else { ResourceRecord::new(hostile_name(&mut r), CLASS::IN, 60, RData::A(A { address: 1 })) };
            if !qnames.is_empty() && r.chance(1, 2) { rr.name = r.pick(&qnames).clone(); }
            if matches!(rr.rdata, RData::OPT(_)) { continue; }
            ops.push_str(&format!(" A {}", text::rr(&rr)));
            mgr.add_authoritative_resource(rr);
        }
        // responder
        watch(&format!("pipe{} PR {} 5", ops, text::hex(&d)));
        let mref = &mgr;
        let dd = d.clone();
        let res = std::panic::catch_unwind(std::panic::AssertUnwindSafe(|| responder_step(mref, &dd)));
        let out = match &res { Ok(b) => format!("ok {}", reply_text(b)), Err(_) => "panic".to_string() };
        let mut c = Case::new(format!("pipe{} PR {} 5", ops, text::hex(&d)), out.clone()).tag(&tag).tag("responder");
        c.nontrivial = d.len() >= 12;
        if out == "panic" { c = c.fail("responder-panic", "the responder's handling of a datagram panicked".into()); }
        if out.contains("unparseable") { c = c.fail("reply-unparseable", "the reply produced is not a parseable DNS message".into()); }
        if let Ok(Some(_)) = &res { c = c.tag("replied"); }
        v.push(c);
        // discovery listener (sync and async ingestion), then the store must still answer queries
        if it % 2 == 0 {
            let mut store: ResourceRecordManager<'static> = ResourceRecordManager::new();
            let sname = mk_name(&service);
            let fname = mk_name(&full);
            let own_ptr = ResourceRecord::new(sname.clone(), CLASS::IN, 0, RData::PTR(PTR(fname.clone())));
            store.add_authoritative_resource(own_ptr.clone());
            let line = format!("pipe A {} PD {} {} {} 5", text::rr(&own_ptr), text::name(&sname), text::name(&fname), text::hex(&d));
            watch(&line);
            let dd = d.clone();
            let res = std::panic::catch_unwind(std::panic::AssertUnwindSafe(|| -> (Option<Vec<u8>>, String) {
                let mut reply = None;
                if let Ok(packet) = Packet::parse(&dd) {
                    if packet.has_flags(PacketFlag::RESPONSE) {
                        // no channel, a channel whose receiver is alive, a channel the application has dropped its end of
                        let (tx, rx) = std::sync::mpsc::channel();
                        let mut ch = if dd.len() % 2 == 0 { Some(tx) } else { None };
                        let _kept = if dd.len() % 4 == 0 { drop(rx); None } else { Some(rx) };
                        sync_add_response_to_resources(packet, &sname, &fname, &mut store, &mut ch);
                    } else {
                        reply = match build_reply(packet, &store) { Some((rp, _)) => rp.build_bytes_vec_compressed().ok(), None => None };
                    }
                }
                let cached: Vec<String> = store.get_domain_resources(&sname, DomainResourceFilter::cached()).flatten().map(text::rr).collect();
                // what `get_known_services` does with the store afterwards (on the application's thread)
                let _known: Vec<InstanceInformation> = store.get_domain_resources(&sname, DomainResourceFilter::cached()).filter_map(|rs| instance_from_records(&sname, rs)).collect();
                (reply, sorted(cached))
            }));
            let out = match &res { Ok((b, cached)) => format!("ok {} cached {}", reply_text(b), cached), Err(_) => "panic".to_string() };
            let mut c = Case::new(line, out.clone()).tag("discovery");
            c.nontrivial = d.len() >= 12;
            if out == "panic" { c = c.fail("discovery-panic", "the discovery listener's handling of a datagram panicked (the store's lock would be poisoned)".into()); }
            if out.contains("unparseable") { c = c.fail("reply-unparseable", "".into()); }
            if out.contains("cached 0") == false && res.is_ok() { c = c.tag("ingested"); }
            v.push(c);
            // the async ingestion path must agree with the sync one
            let dd2 = d.clone();
            let (sn2, fn2, ptr2) = (sname.clone(), fname.clone(), own_ptr.clone());
            let r2 = std::panic::catch_unwind(std::panic::AssertUnwindSafe(move || -> Option<String> {
                let packet = Packet::parse(&dd2).ok()?;
                if !packet.has_flags(PacketFlag::RESPONSE) { return None; }
                let rt = tokio::runtime::Builder::new_current_thread().build().unwrap();
                let mut store2: ResourceRecordManager<'static> = ResourceRecordManager::new();
                store2.add_authoritative_resource(ptr2);
                // with and without an on_discovery channel (roomy, so that nothing waits); the receiver stays alive
                let (tx, rx) = tokio::sync::mpsc::channel::<InstanceInformation>(64);
                let _kept = if dd2.len() % 4 == 1 { drop(rx); None } else { Some(rx) };
                rt.block_on(async { let mut ch = if dd2.len() % 3 != 0 { Some(tx) } else { None }; simple_mdns::verif::async_add_response_to_resources(packet, &sn2, &fn2, &mut store2, &mut ch).await; });
                Some(sorted(store2.get_domain_resources(&sn2, DomainResourceFilter::cached()).flatten().map(text::rr).collect()))
            }));
            match (r2, &res) {
                (Err(_), _) => { v.push(Case::oracle_only().tag("async-ingest").fail("discovery-panic", "async ingestion panicked".into())); }
                (Ok(Some(a)), Ok((_, b))) => { let mut c2 = Case::oracle_only().tag("async-ingest"); if a != *b { c2 = c2.fail("async-differs", "async and sync ingestion cache different records".into()); } v.push(c2); }
                _ => {}
            }
        }
    }
    // announcements of the watched service whose instance label is hostile, ingested with and without
    // a discovery channel, followed by what `get_known_services` does on the same store
    let hostile_labels: Vec<Vec<u8>> = vec![vec![0xFF, 0xFE], b"caf\xe9".to_vec(), vec![0xC3], vec![b'a'; 63], b"x.y\\z".to_vec(), vec![0], b"ok".to_vec(), vec![0xF0, 0x9F, 0x98], "é".as_bytes().to_vec()];
    for (k, hl) in hostile_labels.iter().enumerate() {
        for with_channel in [false, true] {
            let sname = mk_name(&service);
            let fname = mk_name(&full);
            let mut inst_labels = vec![hl.clone()];
            inst_labels.extend(service.clone());
            let iname = mk_name(&inst_labels);
            let mut p = Packet::new_reply(0);
            p.answers.push(ResourceRecord::new(iname.clone(), CLASS::IN, 120, RData::A(A { address: k as u32 })));
            p.answers.push(ResourceRecord::new(iname.clone(), CLASS::IN, 120, RData::SRV(SRV { priority: 0, weight: 0, port: 80, target: iname.clone() })));
            p.additional_records.push(ResourceRecord::new(iname.clone(), CLASS::IN, 120, RData::TXT(TXT::new().with_char_string(crate::gen::mk_cs(&[0xFF, b'=', 0xFE])))));
            let d = p.build_bytes_vec_compressed().unwrap();
            let own_ptr = ResourceRecord::new(sname.clone(), CLASS::IN, 0, RData::PTR(PTR(fname.clone())));
            let line = format!("pipe A {} PD {} {} {} 5", text::rr(&own_ptr), text::name(&sname), text::name(&fname), text::hex(&d));
            watch(&line);
            let res = std::panic::catch_unwind(std::panic::AssertUnwindSafe(|| -> std::result::Result<String, String> {
                let mut store: ResourceRecordManager<'static> = ResourceRecordManager::new();
                store.add_authoritative_resource(own_ptr.clone());
                let packet = Packet::parse(&d).map_err(|_| "parse".to_string())?;
                let (tx, rx) = std::sync::mpsc::channel();
                let mut ch = if with_channel { Some(tx) } else { None };
                sync_add_response_to_resources(packet, &sname, &fname, &mut store, &mut ch);
                let _ = rx.try_recv().map(|i| (i.escaped_instance_name(), i.unescaped_instance_name(), format!("{:?}", i)));
                let cached: Vec<String> = store.get_domain_resources(&sname, DomainResourceFilter::cached()).flatten().map(text::rr).collect();
                // what the application does next
                let known: Vec<InstanceInformation> = store.get_domain_resources(&sname, DomainResourceFilter::cached()).filter_map(|rs| instance_from_records(&sname, rs)).collect();
                let _ = format!("{:?}", known);
                Ok(sorted(cached))
            }));
            let out = match &res { Ok(Ok(c)) => format!("ok none cached {}", c), Ok(Err(e)) => format!("err {}", e), Err(_) => "panic".to_string() };
            let mut c = Case::new(line, out.clone()).tag("hostile-announcement").tag(if with_channel { "with-channel" } else { "without-channel" });
            if out == "panic" { c = c.fail("discovery-panic", format!("ingesting / listing an announcement whose instance label is {:?} panicked", hl)); }
            v.push(c);
        }
    }
    v.extend(live_vec_with_baseline("sync responder", &|| socket_cases(tier, seed)));
    v
}

/// a query of `n` questions for the TXT records of one name (the first name in full, the others as
/// pointers to it): a few kilobytes that ask for `n` copies of every matching record, so that the reply
/// exceeds what one UDP datagram can carry and the service's `send_to` fails
fn amplification_query(name: &Name, n: usize) -> Vec<u8> {
    let mut b = vec![0x14, 0x99, 0, 0];
    b.extend_from_slice(&(n as u16).to_be_bytes());
    b.extend_from_slice(&[0, 0, 0, 0, 0, 0]);
    for l in name.get_labels() { b.push(l.len() as u8); b.extend_from_slice(l.as_bytes()); }
    b.push(0);
    b.extend_from_slice(&[0, 16, 0x80, 1]);
    for _ in 1..n { b.extend_from_slice(&[0xC0, 12, 0, 16, 0x80, 1]); }
    b
}

/// Does this environment deliver loopback multicast on the mDNS group at all? Probed once, with sockets made here (not by
/// the library): a listener bound to 5353 with address reuse that joins 224.0.0.251, and a plain sender.
pub fn env_multicast_ok() -> bool {
    static OK: std::sync::OnceLock<bool> = std::sync::OnceLock::new();
    *OK.get_or_init(|| {
        use socket2::{Domain, Protocol, Socket, Type};
        use std::net::{Ipv4Addr, SocketAddr, SocketAddrV4};
        let probe = || -> std::io::Result<bool> {
            let l = Socket::new(Domain::IPV4, Type::DGRAM, Some(Protocol::UDP))?;
            l.set_reuse_address(true)?;
            let _ = l.set_reuse_port(true);
            l.bind(&SocketAddr::V4(SocketAddrV4::new(Ipv4Addr::UNSPECIFIED, 5353)).into())?;
            l.join_multicast_v4(&Ipv4Addr::new(224, 0, 0, 251), &Ipv4Addr::UNSPECIFIED)?;
            l.set_read_timeout(Some(std::time::Duration::from_millis(200)))?;
            let listener: std::net::UdpSocket = l.into();
            let sender = std::net::UdpSocket::bind("0.0.0.0:0")?;
            let token = format!("vharness-probe-{}", std::process::id()).into_bytes();
            let end = std::time::Instant::now() + std::time::Duration::from_millis(1500);
            let mut buf = [0u8; 9000];
            while std::time::Instant::now() < end {
                sender.send_to(&token, "224.0.0.251:5353")?;
                if let Ok((n, _)) = listener.recv_from(&mut buf) { if buf[..n] == token[..] { return Ok(true); } }
            }
            Ok(false)
        };
        probe().unwrap_or(false)
    })
}

/// A live case that ends "not exercised" (its baseline - the service doing the simplest thing it is there for - was not
/// established) while the environment demonstrably delivers multicast is run once more; twice in a row it is a failure of
/// the service, not an absent network.
pub fn live_with_baseline(what: &str, f: &dyn Fn() -> Case) -> Case {
    let _phase = crate::core::live_phase();
    let c = f();
    if !c.tags.iter().any(|t| t == "sockets-not-exercised") || c.oracle_fail.is_some() || !env_multicast_ok() { return c; }
    let again = f();
    if !again.tags.iter().any(|t| t == "sockets-not-exercised") || again.oracle_fail.is_some() { return again; }
    again.fail("live-baseline-lost", format!("{}: this environment delivers loopback multicast (probed with sockets of the harness's own), yet twice in a row the service did not do the simplest thing its live case starts with (answer a plain query / discover a plain announcement / be constructed)", what))
}

/// the same for a live run that yields several cases
pub fn live_vec_with_baseline(what: &str, f: &dyn Fn() -> Vec<Case>) -> Vec<Case> {
    let _phase = crate::core::live_phase();
    let lost = |c: &Case| c.tags.iter().any(|t| t == "sockets-not-exercised") && c.oracle_fail.is_none();
    let first = f();
    if !first.iter().any(lost) || !env_multicast_ok() { return first; }
    let second = f();
    first.into_iter().zip(second.into_iter()).map(|(a, b)| {
        if !lost(&a) { a } else if !lost(&b) { b } else { b.fail("live-baseline-lost", format!("{}: this environment delivers loopback multicast (probed with sockets of the harness's own), yet twice in a row the service did not do the simplest thing its live case starts with", what)) }
    }).collect()
}

/// a sample of the hostile datagrams over loopback multicast against the real services
fn socket_cases(tier: &str, seed: u64) -> Vec<Case> {
    use simple_mdns::sync_discovery::SimpleMdnsResponder;
    use std::net::UdpSocket;
    use std::time::{Duration, Instant};
    let mut v = vec![];
    let res = std::panic::catch_unwind(|| -> std::result::Result<String, String> {
        let mut responder = SimpleMdnsResponder::new(10);
        let name = Name::new_unchecked("verif-c14._tcp.local");
        responder.add_resource(ResourceRecord::new(name.clone(), CLASS::IN, 10, RData::A(A { address: 0x7F000001 })));
        let mut big = TXT::new();
        big.add_char_string(crate::gen::mk_cs(&[b'x'; 250]));
        responder.add_resource(ResourceRecord::new(name.clone(), CLASS::IN, 10, RData::TXT(big)));
        // a registered record the serialiser refuses (a LOC record whose public `version` field is not 0): a question for
        // it produces a reply that cannot be built - one more thing a datagram must not end the service with
        let loc_name = Name::new_unchecked("verif-c14-loc._tcp.local");
        responder.add_resource(ResourceRecord::new(loc_name.clone(), CLASS::IN, 10, RData::LOC(simple_dns::rdata::LOC { version: 1, size: 0, horizontal_precision: 0, vertical_precision: 0, latitude: 0, longitude: 0, altitude: 0 })));
        std::thread::sleep(Duration::from_millis(300));
        let sock = UdpSocket::bind("0.0.0.0:0").map_err(|e| format!("bind: {e}"))?;
        sock.set_read_timeout(Some(Duration::from_millis(400))).ok();
        let dest = "224.0.0.251:5353";
        let ask = |sock: &UdpSocket| -> bool {
            let mut q = Packet::new_query(0x1414);
            q.questions.push(Question::new(name.clone(), TYPE::A.into(), CLASS::IN.into(), true));
            let bytes = q.build_bytes_vec().unwrap();
            for _ in 0..6 {
                if sock.send_to(&bytes, dest).is_err() { return false; }
                let deadline = Instant::now() + Duration::from_millis(400);
                let mut buf = [0u8; 9000];
                while Instant::now() < deadline {
                    if let Ok((n, _)) = sock.recv_from(&mut buf) {
                        if let Ok(p) = Packet::parse(&buf[..n]) { if p.id() == 0x1414 && !p.answers.is_empty() { return true; } }
                    }
                }
            }
            false
        };
        if !ask(&sock) { return Ok("not-exercised".to_string()); }
        let mut n = 0;
        for (d, _) in hostile_messages(tier, seed ^ 0x50C).into_iter().filter(|(b, _)| b.len() <= 1400).take(if tier == "thorough" { 4000 } else { 400 }) {
            let _ = sock.send_to(&d, dest);
            n += 1;
            if n % 50 == 0 { std::thread::sleep(Duration::from_millis(5)); }
        }
        for d in [vec![], vec![0u8; 3], vec![0xFFu8; 11]] { let _ = sock.send_to(&d, dest); }
        // replies that no datagram can carry (400 and 1400 copies of a 250-byte TXT record)
        for k in [400usize, 1400] { let _ = sock.send_to(&amplification_query(&name, k), dest); n += 1; }
        { let mut q = Packet::new_query(0x1416); q.questions.push(Question::new(loc_name.clone(), QTYPE::ANY, CLASS::IN.into(), true)); for _ in 0..3 { let _ = sock.send_to(&q.build_bytes_vec().unwrap(), dest); n += 1; } }
        std::thread::sleep(Duration::from_millis(300));
        if ask(&sock) { Ok(format!("alive after {} datagrams", n)) } else { Err(format!("the responder answered before but not after {} hostile datagrams", n)) }
    });
    let mut c = Case::oracle_only().tag("sockets");
    match res {
        Ok(Ok(s)) if s == "not-exercised" => { c = c.tag("sockets-not-exercised"); }
        Ok(Ok(_)) => { c = c.tag("sockets-alive"); }
        Ok(Err(m)) => { c = c.fail("responder-wedged", m); }
        Err(_) => { c = c.tag("sockets-not-exercised"); }
    }
    v.push(c);
    v.push(live_with_baseline("sync resolver", &|| live_resolver(tier, seed)));
    v.push(live_with_baseline("sync discovery listener", &|| live_discovery(tier, seed)));
    v.extend(live_vec_with_baseline("tokio services", &|| live_tokio(tier, seed)));
    v
}

/// the tokio flavour of the three services over loopback multicast, on one current-thread runtime: the
/// responder must still answer after hostile datagrams, the discovery must still discover (and its store
/// stay usable), the resolver must return
fn live_tokio(tier: &str, seed: u64) -> Vec<Case> {
    use simple_mdns::async_discovery::{OneShotMdnsResolver, ServiceDiscovery, SimpleMdnsResponder};
    use std::net::UdpSocket;
    use std::time::{Duration, Instant};
    let rt = match tokio::runtime::Builder::new_current_thread().enable_all().build() { Ok(r) => r, Err(_) => return vec![Case::oracle_only().tag("sockets-tokio").tag("sockets-not-exercised")] };
    let hostile: Vec<Vec<u8>> = hostile_messages(tier, seed ^ 0xA51).into_iter().filter(|(b, _)| b.len() <= 1400).take(if tier == "thorough" { 1500 } else { 250 }).map(|x| x.0).collect();
    let seed2 = seed;
    let res = std::panic::catch_unwind(std::panic::AssertUnwindSafe(|| rt.block_on(async move {
        let mut out: Vec<Case> = vec![];
        let dest = "224.0.0.251:5353";
        let sock = match UdpSocket::bind("0.0.0.0:0") { Ok(s) => s, Err(_) => return vec![Case::oracle_only().tag("sockets-tokio").tag("sockets-not-exercised")] };
        sock.set_nonblocking(true).ok();
        let nap = |ms: u64| tokio::time::sleep(Duration::from_millis(ms));
        // ---- responder
        {
            let mut c = Case::oracle_only().tag("sockets-tokio").tag("tokio-responder");
            let mut responder = SimpleMdnsResponder::new(10);
            let name = Name::new_unchecked("verif-c14t._tcp.local");
            responder.add_resource(ResourceRecord::new(name.clone(), CLASS::IN, 10, RData::A(A { address: 0x7F000001 }))).await;
            let mut big = TXT::new();
            big.add_char_string(crate::gen::mk_cs(&[b'x'; 250]));
            responder.add_resource(ResourceRecord::new(name.clone(), CLASS::IN, 10, RData::TXT(big))).await;
            let loc_name = Name::new_unchecked("verif-c14t-loc._tcp.local");
            responder.add_resource(ResourceRecord::new(loc_name.clone(), CLASS::IN, 10, RData::LOC(simple_dns::rdata::LOC { version: 1, size: 0, horizontal_precision: 0, vertical_precision: 0, latitude: 0, longitude: 0, altitude: 0 }))).await;
            nap(300).await;
            let mut q = Packet::new_query(0x1415);
            q.questions.push(Question::new(name.clone(), TYPE::A.into(), CLASS::IN.into(), true));
            let qbytes = q.build_bytes_vec().unwrap();
            let mut baseline = false;
            let mut after = false;
            for round in 0..2 {
                let mut answered = false;
                'tries: for _ in 0..6 {
                    let _ = sock.send_to(&qbytes, dest);
                    let deadline = Instant::now() + Duration::from_millis(400);
                    let mut buf = [0u8; 9000];
                    while Instant::now() < deadline {
                        match sock.recv_from(&mut buf) {
                            Ok((n, _)) => { if let Ok(p) = Packet::parse(&buf[..n]) { if p.id() == 0x1415 && !p.answers.is_empty() { answered = true; break 'tries; } } }
                            Err(_) => nap(10).await,
                        }
                    }
                }
                if round == 0 {
                    baseline = answered;
                    if !answered { break; }
                    let mut n = 0;
                    for d in hostile.iter() { let _ = sock.send_to(d, dest); n += 1; if n % 25 == 0 { nap(5).await; } }
                    for d in [vec![], vec![0u8; 3], vec![0xFFu8; 11]] { let _ = sock.send_to(&d, dest); }
                    for k in [400usize, 1400] { let _ = sock.send_to(&amplification_query(&name, k), dest); }
                    { let mut q = Packet::new_query(0x1417); q.questions.push(Question::new(loc_name.clone(), QTYPE::ANY, CLASS::IN.into(), true)); for _ in 0..3 { let _ = sock.send_to(&q.build_bytes_vec().unwrap(), dest); } }
                    nap(300).await;
                } else { after = answered; }
            }
            if !baseline { c = c.tag("sockets-not-exercised"); }
            else if after { c = c.tag("sockets-alive"); }
            else { c = c.fail("responder-wedged", format!("tokio flavour: the responder answered before but not after {} hostile datagrams", hostile.len())); }
            out.push(c);
        }
        // ---- discovery
        {
            let mut c = Case::oracle_only().tag("sockets-tokio").tag("tokio-discovery");
            let me = InstanceInformation::new("me".to_string()).with_ip_address(IpAddr::V4(Ipv4Addr::new(127, 0, 0, 1))).with_port(8016).with_attribute("path".to_string(), Some("p".repeat(242)));
            match ServiceDiscovery::new(me, "_verif14t._tcp.local", 60) {
                Err(_) => { c = c.tag("sockets-not-exercised"); }
                Ok(sd) => {
                    let service = Name::new_unchecked("_verif14t._tcp.local");
                    let announce = |label: &str, ttl: u32, flush: bool| -> Vec<u8> {
                        let full = mk_name(&[label.as_bytes().to_vec(), b"_verif14t".to_vec(), b"_tcp".to_vec(), b"local".to_vec()]);
                        let mut p = Packet::new_reply(0);
                        let mut recs = vec![
                            ResourceRecord::new(service.clone(), CLASS::IN, ttl, RData::PTR(PTR(full.clone()))),
                            ResourceRecord::new(full.clone(), CLASS::IN, ttl, RData::SRV(simple_dns::rdata::SRV { priority: 0, weight: 0, port: 8017, target: full.clone() })),
                            ResourceRecord::new(full.clone(), CLASS::IN, ttl, RData::A(A { address: 0x7F000002 })),
                        ];
                        for r in recs.iter_mut() { r.cache_flush = flush; }
                        for r in recs { p.answers.push(r); }
                        p.build_bytes_vec_compressed().unwrap()
                    };
                    nap(200).await;
                    let mut base = false;
                    let deadline = Instant::now() + Duration::from_secs(3);
                    while Instant::now() < deadline && !base {
                        let _ = sock.send_to(&announce("basepeer", 120, false), dest);
                        nap(120).await;
                        base = sd.get_known_services().await.iter().any(|i| i.unescaped_instance_name() == "basepeer");
                    }
                    if !base { c = c.tag("sockets-not-exercised"); }
                    else {
                        let mut r = Rng::new(seed2 ^ 0xD17);
                        let mut n = 0;
                        for i in 0..(if hostile.len() > 1000 { 600 } else { 120 }) {
                            let label = *r.pick(&["peer1", "My Printer", "x.y", "peer2"]);
                            let d = announce(label, *r.pick(&[0u32, 0, 1, 120, 0x8000_0000, u32::MAX]), i % 3 == 0);
                            let _ = sock.send_to(&d, dest);
                            n += 1;
                            if n % 20 == 0 { nap(5).await; }
                        }
                        for d in hostile.iter().take(150) { let _ = sock.send_to(d, dest); }
                        // a discovery also answers queries about its own instance: hundreds of questions for its large TXT
                        // record ask for a reply no datagram can carry (the send fails; the listener goes on)
                        let own_name = Name::new_unchecked("me._verif14t._tcp.local");
                        nap(250).await; // let the listener drain what was sent so far: the queries must not be dropped by a full receive buffer
                        for d in [vec![], vec![0u8], vec![0u8, 0], vec![0u8, 0, 0x84], vec![0u8; 4], vec![0xFFu8; 11]] { let _ = sock.send_to(&d, dest); nap(5).await; }
                        for k in [400usize, 1400, 400] { let _ = sock.send_to(&amplification_query(&own_name, k), dest); nap(60).await; }
                        nap(150).await;
                        let deadline = Instant::now() + Duration::from_secs(8);
                        let mut found = false;
                        while Instant::now() < deadline && !found {
                            let _ = sock.send_to(&announce("plainpeer", 120, false), dest);
                            nap(120).await;
                            found = match tokio::time::timeout(Duration::from_secs(2), sd.get_known_services()).await { Ok(k) => k.iter().any(|i| i.unescaped_instance_name() == "plainpeer"), Err(_) => false };
                        }
                        if found { c = c.tag("sockets-alive"); } else { c = c.fail("discovery-wedged", format!("tokio flavour: an announcement sent after {} hostile ones is not discovered within 8 s", n)); }
                    }
                }
            }
            out.push(c);
        }
        // ---- discovery whose application does not read the on_discovery channel (capacity 1): the listener may have
        // to wait with its reports, but the shared store must stay usable (`get_known_services` returns)
        {
            let mut c = Case::oracle_only().tag("sockets-tokio").tag("tokio-discovery-full-channel");
            let me = InstanceInformation::new("me2".to_string()).with_ip_address(IpAddr::V4(Ipv4Addr::new(127, 0, 0, 1))).with_port(8018);
            let (dtx, _drx_kept) = tokio::sync::mpsc::channel::<InstanceInformation>(1);
            match ServiceDiscovery::new_with_scope(me, "_verif14f._tcp.local", 60, Some(dtx), simple_mdns::NetworkScope::V4) {
                Err(_) => { c = c.tag("sockets-not-exercised"); }
                Ok(sd) => {
                    let service = Name::new_unchecked("_verif14f._tcp.local");
                    let announce = |label: &str| -> Vec<u8> {
                        let full = mk_name(&[label.as_bytes().to_vec(), b"_verif14f".to_vec(), b"_tcp".to_vec(), b"local".to_vec()]);
                        let mut p = Packet::new_reply(0);
                        p.answers.push(ResourceRecord::new(service.clone(), CLASS::IN, 120, RData::PTR(PTR(full.clone()))));
                        p.answers.push(ResourceRecord::new(full.clone(), CLASS::IN, 120, RData::SRV(simple_dns::rdata::SRV { priority: 0, weight: 0, port: 8019, target: full.clone() })));
                        p.answers.push(ResourceRecord::new(full.clone(), CLASS::IN, 120, RData::A(A { address: 0x7F000003 })));
                        p.build_bytes_vec_compressed().unwrap()
                    };
                    nap(200).await;
                    let before = tokio::time::timeout(Duration::from_millis(1500), sd.get_known_services()).await.is_ok();
                    for label in ["peer-a", "peer-b", "peer-c"] { let _ = sock.send_to(&announce(label), dest); nap(60).await; }
                    nap(300).await;
                    let after = tokio::time::timeout(Duration::from_millis(1500), sd.get_known_services()).await;
                    if !before { c = c.tag("sockets-not-exercised"); }
                    else if after.is_err() { c = c.fail("store-locked", "tokio flavour: with an unread on_discovery channel of capacity 1, get_known_services does not return within 1.5 s after three ordinary announcements (the listener waits for the channel while holding the store's write lock)".into()); }
                    else { c = c.tag("sockets-alive"); }
                    drop(_drx_kept);
                }
            }
            out.push(c);
        }
        // ---- resolver
        {
            let mut c = Case::oracle_only().tag("sockets-tokio").tag("tokio-resolver");
            match OneShotMdnsResolver::new() {
                Err(_) => { c = c.tag("sockets-not-exercised"); }
                Ok(mut resolver) => {
                    resolver.set_query_timeout(Duration::from_millis(900));
                    let name = Name::new_unchecked("verif-res14t._tcp.local");
                    let sender = async {
                        nap(150).await;
                        let mut n = 0;
                        for d in hostile.iter() {
                            if d.len() < 12 { continue; }
                            let mut d = d.clone();
                            d[0] = 0; d[1] = 0; d[2] |= 0x80; if d[6] == 0 && d[7] == 0 { d[7] = 1; }
                            let _ = sock.send_to(&d, dest);
                            n += 1;
                            if n % 25 == 0 { nap(3).await; }
                        }
                        let mut p = Packet::new_reply(0);
                        p.answers.push(ResourceRecord::new(name.clone(), CLASS::IN, 5, RData::A(A { address: 0x7F000009 })));
                        let _ = sock.send_to(&p.build_bytes_vec_compressed().unwrap(), dest);
                    };
                    let query = tokio::time::timeout(Duration::from_secs(8), resolver.query_service_address("verif-res14t._tcp.local"));
                    let (ans, _) = tokio::join!(query, sender);
                    match ans {
                        Err(_) => { c = c.fail("resolver-wedged", "tokio flavour: query_service_address did not return within 8 s of a 0.9 s timeout".into()); }
                        Ok(Ok(Some(a))) => { c = c.tag("resolver-answered"); if format!("{:?}", a) != "127.0.0.9" { c = c.fail("resolver-answer", format!("answered {:?} for a name whose only address record is 127.0.0.9", a)); } }
                        Ok(_) => { c = c.tag("resolver-no-answer"); }
                    }
                    // the address-and-port query: unrelated announcements, a response without any SRV record for the name, one
                    // with an SRV record that has no RDATA, then the real one
                    let pname = Name::new_unchecked("verif-res14tp._tcp.local");
                    let sender = async {
                        nap(150).await;
                        let mut other = Packet::new_reply(0);
                        other.answers.push(ResourceRecord::new(Name::new_unchecked("someone-else._tcp.local"), CLASS::IN, 120, RData::PTR(PTR(Name::new_unchecked("x.someone-else._tcp.local")))));
                        let _ = sock.send_to(&other.build_bytes_vec().unwrap(), dest);
                        let mut only_a = Packet::new_reply(0);
                        only_a.answers.push(ResourceRecord::new(pname.clone(), CLASS::IN, 5, RData::A(A { address: 3 })));
                        let _ = sock.send_to(&only_a.build_bytes_vec().unwrap(), dest);
                        let mut empty_srv = vec![0u8, 0, 0x84, 0, 0, 0, 0, 1, 0, 0, 0, 0];
                        for l in pname.get_labels() { empty_srv.push(l.len() as u8); empty_srv.extend_from_slice(l.as_bytes()); }
                        empty_srv.extend_from_slice(&[0, 0, 33, 0, 1, 0, 0, 0, 5, 0, 0]);
                        let _ = sock.send_to(&empty_srv, dest);
                        nap(30).await;
                        let mut full = Packet::new_reply(0);
                        full.answers.push(ResourceRecord::new(pname.clone(), CLASS::IN, 5, RData::SRV(simple_dns::rdata::SRV { priority: 0, weight: 0, port: 8556, target: pname.clone() })));
                        full.additional_records.push(ResourceRecord::new(pname.clone(), CLASS::IN, 5, RData::A(A { address: 0x7F000009 })));
                        let _ = sock.send_to(&full.build_bytes_vec_compressed().unwrap(), dest);
                    };
                    let query = tokio::time::timeout(Duration::from_secs(8), resolver.query_service_address_and_port("verif-res14tp._tcp.local"));
                    let (ans, _) = tokio::join!(query, sender);
                    match ans {
                        Err(_) => { c = c.fail("resolver-wedged", "tokio flavour: query_service_address_and_port did not return within 8 s of a 0.9 s timeout".into()); }
                        Ok(Ok(Some(a))) => { c = c.tag("resolver-port-answered"); if format!("{:?}", a) != "127.0.0.9:8556" { c = c.fail("resolver-answer", format!("tokio flavour: answered {:?} for SRV port 8556 at 127.0.0.9", a)); } }
                        Ok(_) => { c = c.tag("resolver-port-no-answer"); }
                    }
                    // a query ends at its timeout while unrelated queries and responses keep arriving (25 of each per second)
                    resolver.set_query_timeout(Duration::from_millis(500));
                    let t0 = Instant::now();
                    let flood = async {
                        let mut q = Packet::new_query(0x7777);
                        q.questions.push(Question::new(Name::new_unchecked("someone-else._tcp.local"), TYPE::PTR.into(), CLASS::IN.into(), false));
                        let qb = q.build_bytes_vec().unwrap();
                        let mut other = Packet::new_reply(0);
                        other.answers.push(ResourceRecord::new(Name::new_unchecked("someone-else._tcp.local"), CLASS::IN, 120, RData::PTR(PTR(Name::new_unchecked("x.someone-else._tcp.local")))));
                        let rb = other.build_bytes_vec().unwrap();
                        let end = Instant::now() + Duration::from_millis(2500);
                        while Instant::now() < end { let _ = sock.send_to(&qb, dest); let _ = sock.send_to(&rb, dest); nap(40).await; }
                    };
                    let query = async { let r = tokio::time::timeout(Duration::from_secs(8), resolver.query_service_address("verif-nobody14t._tcp.local")).await; (r.is_ok(), t0.elapsed()) };
                    let ((returned, took), _) = tokio::join!(query, flood);
                    if !returned { c = c.fail("resolver-wedged", "tokio flavour: a query with a 0.5 s timeout did not return within 8 s of unrelated traffic".into()); }
                    else if took > Duration::from_millis(1600) { c = c.fail("resolver-wedged", format!("tokio flavour: a query with a 0.5 s timeout returned after {} ms while unrelated queries and responses kept arriving", took.as_millis())); }
                    else { c = c.tag("resolver-timeout-kept"); }
                }
            }
            out.push(c);
        }
        out
    })));
    match res {
        Ok(v) => v,
        Err(_) => vec![Case::oracle_only().tag("sockets-tokio").fail("tokio-service-panic", "a tokio-flavour service call panicked while hostile datagrams arrived".into())],
    }
}

/// the one-shot resolver over loopback multicast: while a query is pending, datagrams that pass its
/// header peek (response bit, the query's id 0, an answer count) but are otherwise hostile arrive,
/// then the real answer. The call must return (no panic, no hang), with the right address if it
/// answers at all.
fn live_resolver(tier: &str, seed: u64) -> Case {
    use simple_mdns::sync_discovery::OneShotMdnsResolver;
    use std::net::UdpSocket;
    use std::time::Duration;
    let mut c = Case::oracle_only().tag("sockets-resolver");
    let mut resolver = match OneShotMdnsResolver::new() { Ok(r) => r, Err(_) => return c.tag("sockets-not-exercised") };
    resolver.set_query_timeout(Duration::from_millis(900));
    let (tx, rx) = std::sync::mpsc::channel();
    let handle = std::thread::spawn(move || {
        let r = std::panic::catch_unwind(std::panic::AssertUnwindSafe(|| resolver.query_service_address("verif-res14._tcp.local")));
        let _ = tx.send(match r { Ok(Ok(a)) => format!("ok {:?}", a), Ok(Err(_)) => "err".to_string(), Err(_) => "panic".to_string() });
    });
    let sock = match UdpSocket::bind("0.0.0.0:0") { Ok(s) => s, Err(_) => return c.tag("sockets-not-exercised") };
    let dest = "224.0.0.251:5353";
    std::thread::sleep(Duration::from_millis(150));
    let mut n = 0;
    for (mut d, _) in hostile_messages(tier, seed ^ 0x0E5).into_iter().filter(|(b, _)| b.len() >= 12 && b.len() <= 1400).take(if tier == "thorough" { 1500 } else { 250 }) {
        d[0] = 0; d[1] = 0; d[2] |= 0x80; if d[6] == 0 && d[7] == 0 { d[7] = 1; }
        let _ = sock.send_to(&d, dest);
        n += 1;
        if n % 50 == 0 { std::thread::sleep(Duration::from_millis(5)); }
    }
    let name = Name::new_unchecked("verif-res14._tcp.local");
    // records of the asked type for the queried name that carry no RDATA at all (RDLENGTH 0: legal on the wire, parsed as
    // records of that type without data): not an address, to be passed over
    let empty_record = |name: &Name, ty: u16| -> Vec<u8> {
        let mut b = vec![0u8, 0, 0x84, 0, 0, 0, 0, 1, 0, 0, 0, 0];
        for l in name.get_labels() { b.push(l.len() as u8); b.extend_from_slice(l.as_bytes()); }
        b.push(0);
        b.extend_from_slice(&ty.to_be_bytes());
        b.extend_from_slice(&[0, 1, 0, 0, 0, 5, 0, 0]);
        b
    };
    for ty in [1u16, 28, 33, 16] { let _ = sock.send_to(&empty_record(&name, ty), dest); }
    // answers for the queried name that are not addresses, then the address
    for rd in [RData::TXT(simple_dns::rdata::TXT::new()), RData::A(A { address: 0x7F000009 })] {
        let mut p = Packet::new_reply(0);
        p.answers.push(ResourceRecord::new(hostile_name(&mut Rng::new(seed)), CLASS::IN, 5, RData::A(A { address: 1 })));
        if matches!(rd, RData::A(_)) { p.answers.push(ResourceRecord::new(name.clone(), CLASS::IN, 5, rd)); }
        else { p.additional_records.push(ResourceRecord::new(name.clone(), CLASS::IN, 5, rd)); }
        let _ = sock.send_to(&p.build_bytes_vec_compressed().unwrap(), dest);
    }
    match rx.recv_timeout(Duration::from_secs(8)) {
        Ok(s) if s == "panic" => { c = c.fail("resolver-panic", format!("query_service_address panicked while {} hostile datagrams arrived", n)); }
        Ok(s) if s.starts_with("ok Some") => { c = c.tag("resolver-answered"); if s != "ok Some(127.0.0.9)" { c = c.fail("resolver-answer", format!("answered {} for a name whose only address record is 127.0.0.9", s)); } }
        Ok(_) => { c = c.tag("resolver-no-answer"); }
        Err(_) => { c = c.fail("resolver-wedged", format!("query_service_address did not return within 8 s of a 0.9 s timeout ({} hostile datagrams)", n)); return c; }
    }
    let _ = handle.join();
    // the address-and-port query: an SRV answer with the address in the additional section, after a
    // response that carries the SRV record only (the resolver then asks for the address itself)
    if let Ok(mut resolver) = OneShotMdnsResolver::new() {
        resolver.set_query_timeout(Duration::from_millis(900));
        let (tx, rx) = std::sync::mpsc::channel();
        let h2 = std::thread::spawn(move || {
            let r = std::panic::catch_unwind(std::panic::AssertUnwindSafe(|| resolver.query_service_address_and_port("verif-res14p._tcp.local")));
            let _ = tx.send(match r { Ok(Ok(a)) => format!("ok {:?}", a), Ok(Err(_)) => "err".to_string(), Err(_) => "panic".to_string() });
        });
        std::thread::sleep(Duration::from_millis(150));
        let pname = Name::new_unchecked("verif-res14p._tcp.local");
        let srv = ResourceRecord::new(pname.clone(), CLASS::IN, 5, RData::SRV(simple_dns::rdata::SRV { priority: 0, weight: 0, port: 8555, target: pname.clone() }));
        let mut only_srv = Packet::new_reply(0);
        only_srv.answers.push(ResourceRecord::new(hostile_name(&mut Rng::new(seed ^ 7)), CLASS::IN, 5, RData::A(A { address: 3 })));
        let _ = sock.send_to(&only_srv.build_bytes_vec_compressed().unwrap(), dest);
        for ty in [33u16, 1, 28, 12] { let _ = sock.send_to(&empty_record(&pname, ty), dest); }
        let mut full = Packet::new_reply(0);
        full.answers.push(srv);
        full.additional_records.push(ResourceRecord::new(pname.clone(), CLASS::IN, 5, RData::A(A { address: 0x7F000009 })));
        let _ = sock.send_to(&full.build_bytes_vec_compressed().unwrap(), dest);
        match rx.recv_timeout(Duration::from_secs(8)) {
            Ok(s) if s == "panic" => { c = c.fail("resolver-panic", "query_service_address_and_port panicked".into()); }
            Ok(s) if s.starts_with("ok Some") => { c = c.tag("resolver-port-answered"); if s != "ok Some(127.0.0.9:8555)" { c = c.fail("resolver-answer", format!("answered {} for SRV port 8555 at 127.0.0.9", s)); } }
            Ok(_) => { c = c.tag("resolver-port-no-answer"); }
            Err(_) => { c = c.fail("resolver-wedged", "query_service_address_and_port did not return within 8 s of a 0.9 s timeout".into()); return c; }
        }
        let _ = h2.join();
    }
    // the raw entry point: `query_packet` sends the caller's packet and hands back the first response datagram with the
    // packet's id and at least one answer - hostile and short datagrams, responses with other ids and empty ones pass by
    if let Ok(mut resolver) = OneShotMdnsResolver::new() {
        resolver.set_query_timeout(Duration::from_millis(900));
        resolver.set_unicast_response(false);
        let (tx, rx) = std::sync::mpsc::channel();
        let h4 = std::thread::spawn(move || {
            let mut q = Packet::new_query(0x4242);
            q.questions.push(Question::new(Name::new_unchecked("verif-raw14._tcp.local"), TYPE::TXT.into(), CLASS::IN.into(), false));
            let r = std::panic::catch_unwind(std::panic::AssertUnwindSafe(|| resolver.query_packet(q)));
            let _ = tx.send(match r { Ok(Ok(Some(b))) => format!("ok {}", text::hex(&b)), Ok(Ok(None)) => "none".to_string(), Ok(Err(_)) => "err".to_string(), Err(_) => "panic".to_string() });
        });
        std::thread::sleep(Duration::from_millis(150));
        for d in [vec![], vec![0x43u8], vec![0x43, 0x43, 0x80], vec![0x43, 0x43, 0x80, 0, 0, 0, 0, 1], vec![0xFFu8; 11]] { let _ = sock.send_to(&d, dest); }
        // (the resolver peeks id, QR and ANCOUNT in its whole 4096-byte receive buffer, not in the bytes just received: a
        // datagram of 3 bytes carrying the query's own id and the response bit is handed back as "the response" when the
        // bytes left over from an earlier datagram say ANCOUNT > 0. `query_packet` returns raw bytes and no property speaks
        // about which; the short datagrams here carry another id so that the outcome does not depend on earlier traffic)
        let rname = Name::new_unchecked("verif-raw14._tcp.local");
        let mk = |id: u16, with_answer: bool| { let mut p = Packet::new_reply(id); if with_answer { p.answers.push(ResourceRecord::new(rname.clone(), CLASS::IN, 5, RData::TXT(simple_dns::rdata::TXT::new().with_string("k=v").unwrap()))); } p.build_bytes_vec_compressed().unwrap() };
        let _ = sock.send_to(&mk(0x4243, true), dest);
        let _ = sock.send_to(&mk(0x4242, false), dest);
        let wanted = mk(0x4242, true);
        let _ = sock.send_to(&wanted, dest);
        match rx.recv_timeout(Duration::from_secs(8)) {
            Ok(s) if s == "panic" => { c = c.fail("resolver-panic", "query_packet panicked".into()); }
            Ok(s) if s.starts_with("ok ") => { c = c.tag("resolver-raw-answered"); if s != format!("ok {}", text::hex(&wanted)) { c = c.fail("resolver-answer", format!("query_packet returned {} bytes that are not the response with its id and an answer", (s.len() - 4) / 2)); } }
            Ok(_) => { c = c.tag("resolver-raw-no-answer"); }
            Err(_) => { c = c.fail("resolver-wedged", "query_packet did not return within 8 s of a 0.9 s timeout".into()); return c; }
        }
        let _ = h4.join();
    }
    // a query ends at its timeout however much unrelated traffic arrives meanwhile: other hosts' queries, 25 per second
    // for 2.5 s, while a query with a 0.5 s timeout for a name nobody answers is pending
    if let Ok(mut resolver) = OneShotMdnsResolver::new() {
        resolver.set_query_timeout(Duration::from_millis(500));
        let (tx, rx) = std::sync::mpsc::channel();
        let t0 = std::time::Instant::now();
        let h3 = std::thread::spawn(move || {
            let _ = std::panic::catch_unwind(std::panic::AssertUnwindSafe(|| resolver.query_service_address("verif-nobody14._tcp.local")));
            let _ = tx.send(t0.elapsed());
        });
        let mut q = Packet::new_query(0x7777);
        q.questions.push(Question::new(Name::new_unchecked("someone-else._tcp.local"), TYPE::PTR.into(), CLASS::IN.into(), false));
        let qb = q.build_bytes_vec().unwrap();
        // ... and other hosts' answers to them: responses with the id every mDNS message carries (0) and an answer, which
        // pass the resolver's header peek and are handed to the query loop - the deadline is the query's, not the datagram's
        let mut other = Packet::new_reply(0);
        other.answers.push(ResourceRecord::new(Name::new_unchecked("someone-else._tcp.local"), CLASS::IN, 120, RData::PTR(PTR(Name::new_unchecked("x.someone-else._tcp.local")))));
        let rb = other.build_bytes_vec().unwrap();
        let flood_end = std::time::Instant::now() + Duration::from_millis(2500);
        let mut took = None;
        while std::time::Instant::now() < flood_end && took.is_none() {
            let _ = sock.send_to(&qb, dest);
            let _ = sock.send_to(&rb, dest);
            if let Ok(d) = rx.recv_timeout(Duration::from_millis(40)) { took = Some(d); }
        }
        let took = match took { Some(d) => Some(d), None => rx.recv_timeout(Duration::from_secs(6)).ok() };
        match took {
            Some(d) if d > Duration::from_millis(1600) => { c = c.fail("resolver-wedged", format!("a query with a 0.5 s timeout returned after {} ms: it does not time out while unrelated queries (25 per second) keep arriving", d.as_millis())); }
            Some(_) => { c = c.tag("resolver-timeout-kept"); }
            None => { c = c.fail("resolver-wedged", "a query with a 0.5 s timeout did not return within 8 s of unrelated traffic".into()); return c; }
        }
        let _ = h3.join();
    }
    c
}

/// the service-discovery listener over loopback multicast: hostile and odd announcements for the
/// watched service, then a plain one; the shared store must stay usable (`get_known_services` does not
/// panic on a poisoned lock) and the plain announcement must still be discovered
fn live_discovery(tier: &str, seed: u64) -> Case {
    use simple_mdns::sync_discovery::ServiceDiscovery;
    use std::net::UdpSocket;
    use std::time::{Duration, Instant};
    let mut c = Case::oracle_only().tag("sockets-discovery");
    let me = InstanceInformation::new("me".to_string()).with_ip_address(IpAddr::V4(Ipv4Addr::new(127, 0, 0, 1))).with_port(8014).with_attribute("path".to_string(), Some("p".repeat(242)));
    let sd = match std::panic::catch_unwind(|| ServiceDiscovery::new(me, "_verif14d._tcp.local", 60)) { Ok(Ok(s)) => s, _ => return c.tag("sockets-not-exercised") };
    let sock = match UdpSocket::bind("0.0.0.0:0") { Ok(s) => s, Err(_) => return c.tag("sockets-not-exercised") };
    let dest = "224.0.0.251:5353";
    let service = Name::new_unchecked("_verif14d._tcp.local");
    let announce = |label: &str, ttl: u32, flush: bool| -> Vec<u8> {
        let full = mk_name(&[label.as_bytes().to_vec(), b"_verif14d".to_vec(), b"_tcp".to_vec(), b"local".to_vec()]);
        let mut p = Packet::new_reply(0);
        let mut recs = vec![
            ResourceRecord::new(service.clone(), CLASS::IN, ttl, RData::PTR(PTR(full.clone()))),
            ResourceRecord::new(full.clone(), CLASS::IN, ttl, RData::SRV(simple_dns::rdata::SRV { priority: 0, weight: 0, port: 8015, target: full.clone() })),
            ResourceRecord::new(full.clone(), CLASS::IN, ttl, RData::A(A { address: 0x7F000002 })),
        ];
        for r in recs.iter_mut() { r.cache_flush = flush; }
        for r in recs { p.answers.push(r); }
        p.build_bytes_vec_compressed().unwrap()
    };
    std::thread::sleep(Duration::from_millis(200));
    // baseline: the listener works in this environment at all
    {
        let deadline = Instant::now() + Duration::from_secs(3);
        let mut ok = false;
        while Instant::now() < deadline && !ok {
            let _ = sock.send_to(&announce("basepeer", 120, false), dest);
            std::thread::sleep(Duration::from_millis(120));
            ok = sd.get_known_services().iter().any(|i| i.unescaped_instance_name() == "basepeer");
        }
        if !ok { return c.tag("sockets-not-exercised"); }
    }
    let mut r = Rng::new(seed ^ 0xD15);
    let mut n = 0;
    for i in 0..(if tier == "thorough" { 600 } else { 120 }) {
        let label = *r.pick(&["peer1", "My Printer", "x.y", "peer2"]);
        let d = announce(label, *r.pick(&[0u32, 0, 1, 120, 0x8000_0000, u32::MAX]), i % 3 == 0);
        let _ = sock.send_to(&d, dest);
        n += 1;
        if n % 40 == 0 { std::thread::sleep(Duration::from_millis(5)); }
    }
    for (d, _) in hostile_messages(tier, seed ^ 0xD16).into_iter().filter(|(b, _)| b.len() <= 1400).take(150) { let _ = sock.send_to(&d, dest); }
    // a discovery also answers queries about its own instance: hundreds of questions for its large TXT record ask for
    // a reply no datagram can carry (the send fails; the listener goes on)
    let own_name = Name::new_unchecked("me._verif14d._tcp.local");
    std::thread::sleep(Duration::from_millis(250)); // let the listener drain what was sent so far
    // datagrams shorter than a header: nothing to parse, nothing to slice
    for d in [vec![], vec![0u8], vec![0u8, 0], vec![0u8, 0, 0x84], vec![0u8; 4], vec![0xFFu8; 11]] { let _ = sock.send_to(&d, dest); std::thread::sleep(Duration::from_millis(5)); }
    for k in [400usize, 1400, 400] { let _ = sock.send_to(&amplification_query(&own_name, k), dest); std::thread::sleep(Duration::from_millis(60)); }
    std::thread::sleep(Duration::from_millis(150));
    let deadline = Instant::now() + Duration::from_secs(8);
    let mut found = false;
    let mut poisoned = false;
    while Instant::now() < deadline && !found && !poisoned {
        let _ = sock.send_to(&announce("plainpeer", 120, false), dest);
        std::thread::sleep(Duration::from_millis(120));
        match std::panic::catch_unwind(std::panic::AssertUnwindSafe(|| sd.get_known_services())) {
            Ok(known) => { found = known.iter().any(|i| i.unescaped_instance_name() == "plainpeer"); }
            Err(_) => { poisoned = true; }
        }
    }
    if poisoned { c = c.fail("discovery-store-unusable", format!("get_known_services panics after {} announcements: the listener died holding the store's lock", n)); }
    else if !found { c = c.fail("discovery-wedged", format!("an announcement sent after {} hostile ones is not discovered within 8 s", n)); }
    else { c = c.tag("sockets-alive"); }
    c
}

/// a discoverer that starts after the advertiser's unsolicited announcements learns about it only from the answers
/// to its own start-up query: an instance without a port (the quantifier's "0..n ports") must still be reported with
/// its addresses
fn live_late_joiner() -> Case {
    use simple_mdns::sync_discovery::ServiceDiscovery;
    use std::time::{Duration, Instant};
    let mut c = Case::oracle_only().tag("sockets-late-joiner");
    let res = std::panic::catch_unwind(|| -> std::result::Result<String, String> {
        let adv = InstanceInformation::new("late-adv".to_string()).with_ip_address(IpAddr::V4(Ipv4Addr::new(10, 1, 2, 3))).with_attribute("k".to_string(), Some("v".to_string()));
        let _sd_a = ServiceDiscovery::new(adv.clone(), "_verif15l._tcp.local", 60).map_err(|_| "not-exercised".to_string())?;
        // a second early peer that will announce again later: the baseline that tells a lost answer from an absent network
        let base = InstanceInformation::new("late-base".to_string()).with_ip_address(IpAddr::V4(Ipv4Addr::new(10, 1, 2, 6))).with_port(8203);
        let mut sd_c = ServiceDiscovery::new(base, "_verif15l._tcp.local", 60).map_err(|_| "not-exercised".to_string())?;
        std::thread::sleep(Duration::from_millis(1700));
        let watcher = InstanceInformation::new("late-watch".to_string()).with_ip_address(IpAddr::V4(Ipv4Addr::new(10, 1, 2, 4))).with_port(8201);
        let sd_b = ServiceDiscovery::new(watcher, "_verif15l._tcp.local", 60).map_err(|_| "not-exercised".to_string())?;
        let deadline = Instant::now() + Duration::from_millis(2500);
        let mut last = None;
        let mut baseline = false;
        while Instant::now() < deadline {
            std::thread::sleep(Duration::from_millis(150));
            sd_c.announce(false);
            baseline |= sd_b.get_known_services().iter().any(|i| i.unescaped_instance_name() == "late-base");
            if let Some(i) = sd_b.get_known_services().into_iter().find(|i| i.unescaped_instance_name() == "late-adv") {
                if i.ip_addresses == adv.ip_addresses && i.attributes == adv.attributes { return Ok("faithful".to_string()); }
                last = Some(inst_text(&i, &i.unescaped_instance_name()));
            }
        }
        match last { None if baseline => Err("a peer that was running (and silent) before the discoverer started is never learned: the answers to the discoverer's start-up query do not reach it, while a peer that announces again is discovered".to_string()), None => Ok("not-exercised".to_string()), Some(t) => Err(format!("an instance advertised with the address 10.1.2.3, the attribute k=v and no port is known to a discoverer that started 1.7 s later as {} (advertised {})", t, inst_text(&adv, "late-adv"))) }
    });
    match res {
        Ok(Ok(s)) if s == "faithful" => { c = c.tag("sockets-alive"); }
        Ok(Ok(_)) | Ok(Err(_)) if matches!(&res, Ok(Ok(_))) => { c = c.tag("sockets-not-exercised"); }
        Ok(Err(m)) if m == "not-exercised" => { c = c.tag("sockets-not-exercised"); }
        Ok(Err(m)) => { c = c.fail("discovery-differs", m); }
        _ => { c = c.tag("sockets-not-exercised"); }
    }
    c
}

/// two `ServiceDiscovery` instances of one service on loopback multicast: the second must report the
/// first exactly (name, address, port, attributes), not itself, and stop reporting it soon after the
/// first withdraws (`remove_service_from_discovery` announces with cache-flush, i.e. one second of life)
fn live_pair() -> Case {
    use simple_mdns::sync_discovery::ServiceDiscovery;
    use std::time::{Duration, Instant};
    let mut c = Case::oracle_only().tag("sockets-pair");
    let res = std::panic::catch_unwind(|| -> std::result::Result<&'static str, String> {
        let svc = "_verif15p._tcp.local";
        let a = pair_instance();
        let b = InstanceInformation::new("beta".to_string()).with_ip_address(IpAddr::V4(Ipv4Addr::new(10, 1, 2, 4))).with_port(8102);
        let mut sa = match ServiceDiscovery::new(a.clone(), svc, 60) { Ok(s) => s, Err(_) => return Ok("not-exercised") };
        let sb = match ServiceDiscovery::new(b.clone(), svc, 60) { Ok(s) => s, Err(_) => return Ok("not-exercised") };
        // a third, small instance tells whether discovery works in this environment at all: if it is seen and the large
        // one is not, that is a failure, not an environment without multicast
        let g = InstanceInformation::new("gamma".to_string()).with_ip_address(IpAddr::V4(Ipv4Addr::new(10, 1, 2, 5))).with_port(8104);
        let sg = match ServiceDiscovery::new(g, svc, 60) { Ok(s) => s, Err(_) => return Ok("not-exercised") };
        // ... and a fourth without any address (a port and an attribute only: "0..n addresses"), listed like the others
        let dl = InstanceInformation::new("delta".to_string()).with_port(8105).with_attribute("note".to_string(), Some("no address yet".to_string()));
        let mut sdl = match ServiceDiscovery::new(dl.clone(), svc, 60) { Ok(s) => s, Err(_) => return Ok("not-exercised") };
        let deadline = Instant::now() + Duration::from_secs(4);
        let mut seen = None;
        let mut baseline = false;
        let mut delta_seen: Option<InstanceInformation> = None;
        while Instant::now() < deadline && (seen.is_none() || !baseline || delta_seen.is_none()) {
            sa.announce(false);
            sg.announce(false);
            sdl.announce(false);
            std::thread::sleep(Duration::from_millis(150));
            let known = sb.get_known_services();
            if delta_seen.is_none() { delta_seen = known.iter().find(|i| i.unescaped_instance_name() == "delta").cloned(); }
            if known.iter().any(|i| i.unescaped_instance_name() == "beta") { return Err("a discovery reports its own instance".into()); }
            baseline |= known.iter().any(|i| i.unescaped_instance_name() == "gamma");
            seen = known.into_iter().find(|i| i.unescaped_instance_name() == "alpha-one");
        }
        if !baseline { return Ok("not-exercised"); }
        match &delta_seen {
            None => return Err("an instance advertised with a port and an attribute but no address is never listed by get_known_services, while another instance of the service is".into()),
            Some(d) => if inst_text(d, "delta") != inst_text(&dl, "delta") { return Err(format!("advertised {} listed {}", inst_text(&dl, "delta"), inst_text(d, "delta"))); }
        }
        let got = match seen { Some(g) => g, None => return Err("a small instance of the service is discovered, the instance with two dozen long attributes (an announcement of about 5.5 KB) is not".into()) };
        if inst_text(&got, "alpha-one") != inst_text(&a, "alpha-one") { return Err(format!("advertised {} discovered {}", inst_text(&a, "alpha-one"), inst_text(&got, "alpha-one"))); }
        sa.remove_service_from_discovery();
        let deadline = Instant::now() + Duration::from_millis(3500);
        let mut gone = false;
        while Instant::now() < deadline && !gone {
            std::thread::sleep(Duration::from_millis(200));
            gone = !sb.get_known_services().iter().any(|i| i.unescaped_instance_name() == "alpha-one");
        }
        if !gone { return Err("an instance withdrawn with remove_service_from_discovery is still reported 3.5 s later".into()); }
        Ok("alive")
    });
    match res {
        Ok(Ok("alive")) => { c = c.tag("sockets-alive"); }
        Ok(Ok(_)) => { c = c.tag("sockets-not-exercised"); }
        Ok(Err(m)) => { c = c.fail("live-discovery-differs", m); }
        Err(_) => { c = c.fail("live-discovery-panic", "a ServiceDiscovery call panicked".into()); }
    }
    c
}

/// the advertised instance of the live pairs: dual-stack (an IPv4, a unique-local and a link-local IPv6 address), two ports,
/// and two dozen attributes of about 220 bytes each - an announcement of about 5.5 KB, well inside the 9000 bytes an mDNS
/// message may have (RFC 6762 17)
fn pair_instance() -> InstanceInformation {
    let mut a = InstanceInformation::new("alpha-one".to_string()).with_ip_address(IpAddr::V4(Ipv4Addr::new(10, 1, 2, 3))).with_port(8101).with_port(8103)
        .with_ip_address(IpAddr::V6(Ipv6Addr::from((0xFD00u128 << 112) + 0x23))).with_ip_address(IpAddr::V6(Ipv6Addr::from((0xFE80u128 << 112) + 0x24)))
        .with_attribute("path".to_string(), Some("/x".to_string())).with_attribute("flag".to_string(), None);
    for k in 0..24 { a = a.with_attribute(format!("attribute{:02}", k), Some(format!("{}", (b'a' + k as u8) as char).repeat(208))); }
    a
}

/// the tokio flavour of `live_pair`: two `ServiceDiscovery` instances of one service in one process
async fn live_pair_tokio() -> Case {
    use simple_mdns::async_discovery::ServiceDiscovery;
    use std::time::{Duration, Instant};
    let mut c = Case::oracle_only().tag("sockets-pair").tag("sockets-tokio");
    let svc = "_verif15q._tcp.local";
    let a = pair_instance();
    let b = InstanceInformation::new("beta".to_string()).with_ip_address(IpAddr::V4(Ipv4Addr::new(10, 1, 2, 4))).with_port(8102);
    let (mut sa, sb) = match (ServiceDiscovery::new(a.clone(), svc, 60), ServiceDiscovery::new(b.clone(), svc, 60)) { (Ok(x), Ok(y)) => (x, y), _ => return c.tag("sockets-not-exercised") };
    let g = InstanceInformation::new("gamma".to_string()).with_ip_address(IpAddr::V4(Ipv4Addr::new(10, 1, 2, 5))).with_port(8104);
    let mut sg = match ServiceDiscovery::new(g, svc, 60) { Ok(x) => x, Err(_) => return c.tag("sockets-not-exercised") };
    let dl = InstanceInformation::new("delta".to_string()).with_port(8105).with_attribute("note".to_string(), Some("no address yet".to_string()));
    let mut sdl = match ServiceDiscovery::new(dl.clone(), svc, 60) { Ok(x) => x, Err(_) => return c.tag("sockets-not-exercised") };
    let deadline = Instant::now() + Duration::from_secs(4);
    let mut seen = None;
    let mut baseline = false;
    let mut delta_seen: Option<InstanceInformation> = None;
    while Instant::now() < deadline && (seen.is_none() || !baseline || delta_seen.is_none()) {
        let _ = sa.announce(false).await;
        let _ = sg.announce(false).await;
        let _ = sdl.announce(false).await;
        tokio::time::sleep(Duration::from_millis(150)).await;
        let known = match tokio::time::timeout(Duration::from_secs(2), sb.get_known_services()).await { Ok(k) => k, Err(_) => return c.fail("discovery-wedged", "tokio pair: get_known_services does not return".into()) };
        if known.iter().any(|i| i.unescaped_instance_name() == "beta") { return c.fail("live-discovery-differs", "tokio pair: a discovery reports its own instance".into()); }
        baseline |= known.iter().any(|i| i.unescaped_instance_name() == "gamma");
        if delta_seen.is_none() { delta_seen = known.iter().find(|i| i.unescaped_instance_name() == "delta").cloned(); }
        seen = known.into_iter().find(|i| i.unescaped_instance_name() == "alpha-one");
    }
    if !baseline { return c.tag("sockets-not-exercised"); }
    match &delta_seen {
        None => return c.fail("live-discovery-differs", "tokio pair: an instance advertised with a port and an attribute but no address is never listed by get_known_services".into()),
        Some(d) => if inst_text(d, "delta") != inst_text(&dl, "delta") { return c.fail("live-discovery-differs", format!("tokio pair: advertised {} listed {}", inst_text(&dl, "delta"), inst_text(d, "delta"))); }
    }
    let got = match seen { Some(g) => g, None => return c.fail("live-discovery-differs", "tokio pair: a small instance of the service is discovered, the instance with two dozen long attributes (an announcement of about 5.5 KB) is not".into()) };
    if inst_text(&got, "alpha-one") != inst_text(&a, "alpha-one") { return c.fail("live-discovery-differs", format!("tokio pair: advertised {} discovered {}", inst_text(&a, "alpha-one"), inst_text(&got, "alpha-one"))); }
    sa.remove_service_from_discovery().await;
    c.tag("sockets-alive")
}

/// C13 on the running responders: what `build_reply` includes is what goes out. A responder holding an IPv4 address, an
/// IPv6 address, a TXT record, an SRV record (whose target owns the addresses) and a record of another class is asked
/// (unicast reply requested) for ANY, for AAAA, for SRV and for a name it does not own; the reply on the wire carries
/// exactly the registered records that match - both flavours.
pub fn live_responder_answers() -> Vec<Case> {
    use std::net::UdpSocket;
    use std::time::{Duration, Instant};
    fn records(name: &Name<'static>) -> Vec<ResourceRecord<'static>> {
        vec![
            ResourceRecord::new(name.clone(), CLASS::IN, 120, RData::A(A { address: 0x0A010203 })),
            ResourceRecord::new(name.clone(), CLASS::IN, 120, RData::AAAA(simple_dns::rdata::AAAA { address: (0xFD00u128 << 112) + 0x23 })),
            ResourceRecord::new(name.clone(), CLASS::IN, 120, RData::TXT(TXT::new().with_string("k=v").unwrap())),
            ResourceRecord::new(name.clone(), CLASS::IN, 120, RData::SRV(simple_dns::rdata::SRV { priority: 0, weight: 0, port: 8300, target: name.clone() })),
            ResourceRecord::new(name.clone(), CLASS::CH, 120, RData::TXT(TXT::new().with_string("chaos").unwrap())),
        ]
    }
    fn judge(flavour: &str, name: &Name<'static>, sock: &UdpSocket) -> Case {
        let mut c = Case::oracle_only().tag("live-responder-answers");
        let dest = "224.0.0.251:5353";
        let regs = records(name);
        let ask = |qt: QTYPE, qn: &Name<'static>, id: u16| -> Option<(Vec<ResourceRecord<'static>>, Vec<ResourceRecord<'static>>)> {
            let mut q = Packet::new_query(id);
            q.questions.push(Question::new(qn.clone(), qt, CLASS::IN.into(), true));
            let bytes = q.build_bytes_vec().unwrap();
            for _ in 0..5 {
                let _ = sock.send_to(&bytes, dest);
                let deadline = Instant::now() + Duration::from_millis(400);
                let mut buf = [0u8; 9000];
                while Instant::now() < deadline {
                    if let Ok((n, _)) = sock.recv_from(&mut buf) {
                        if let Ok(p) = Packet::parse(&buf[..n]) { if p.id() == id && p.has_flags(PacketFlag::RESPONSE) { return Some((p.answers.iter().map(|r| r.clone().into_owned()).collect(), p.additional_records.iter().map(|r| r.clone().into_owned()).collect())); } }
                    }
                }
            }
            None
        };
        let base = ask(QTYPE::TYPE(TYPE::A), name, 0x1301);
        if base.is_none() { return c.tag("sockets-not-exercised"); }
        let same = |r: &ResourceRecord, x: &ResourceRecord| r.name == x.name && r.class == x.class && r.rdata == x.rdata;
        for (what, qt, id) in [("ANY", QTYPE::ANY, 0x1302u16), ("AAAA", QTYPE::TYPE(TYPE::AAAA), 0x1303), ("SRV", QTYPE::TYPE(TYPE::SRV), 0x1304), ("TXT", QTYPE::TYPE(TYPE::TXT), 0x1305)] {
            let want: Vec<&ResourceRecord> = regs.iter().filter(|r| r.class == CLASS::IN && r.match_qtype(qt)).collect();
            match ask(qt, name, id) {
                None => { c = c.fail("reply-missing", format!("{} responder: a question for {} of a name holding {} matching records gets no reply on the wire (a question for A does)", flavour, what, want.len())); }
                Some((answers, additional)) => {
                    for w in &want { if !answers.iter().any(|x| same(w, x)) { c = c.fail("answer-missing", format!("{} responder: the reply to a question for {} lacks the registered {:?} record", flavour, what, w.rdata.type_code())); } }
                    for x in &answers { if !want.iter().any(|w| same(w, x)) { c = c.fail("answer-not-asked", format!("{} responder: the reply to a question for {} carries a {:?} record that does not match", flavour, what, x.rdata.type_code())); } }
                    if what == "SRV" {
                        for w in regs.iter().filter(|r| r.class == CLASS::IN && matches!(r.rdata, RData::A(_) | RData::AAAA(_))) {
                            if !additional.iter().any(|x| same(w, x)) { c = c.fail("additional-missing", format!("{} responder: the reply to the SRV question lacks the target's {:?} record among the additional records", flavour, w.rdata.type_code())); }
                        }
                    }
                }
            }
        }
        // a large query (a hundred questions for other names in front of the one for the registered name, some 4 KB - what a
        // browser of many services sends): every matching registered record is in the reply. Whether this environment
        // delivers multicast datagrams of that size at all is seen by a probe socket of the harness in the same group
        {
            use socket2::{Domain, Protocol, Socket, Type};
            use std::net::{Ipv4Addr, SocketAddr, SocketAddrV4};
            let probe = (|| -> std::io::Result<UdpSocket> {
                let l = Socket::new(Domain::IPV4, Type::DGRAM, Some(Protocol::UDP))?;
                l.set_reuse_address(true)?;
                let _ = l.set_reuse_port(true);
                l.bind(&SocketAddr::V4(SocketAddrV4::new(Ipv4Addr::UNSPECIFIED, 5353)).into())?;
                l.join_multicast_v4(&Ipv4Addr::new(224, 0, 0, 251), &Ipv4Addr::UNSPECIFIED)?;
                l.set_read_timeout(Some(Duration::from_millis(100)))?;
                Ok(l.into())
            })();
            if let Ok(probe) = probe {
                let id = 0x1310u16;
                let mut q = Packet::new_query(id);
                for k in 0..100 { q.questions.push(Question::new(Name::new_unchecked(&format!("filler-{:03}-of-a-long-list-of-services._tcp.local", k)).into_owned(), QTYPE::TYPE(TYPE::A), CLASS::IN.into(), true)); }
                q.questions.push(Question::new(name.clone(), QTYPE::TYPE(TYPE::A), CLASS::IN.into(), true));
                let bytes = q.build_bytes_vec().unwrap();
                let (mut delivered, mut answered) = (false, false);
                for _ in 0..4 {
                    let _ = sock.send_to(&bytes, dest);
                    let deadline = Instant::now() + Duration::from_millis(500);
                    let mut buf = [0u8; 9000];
                    while Instant::now() < deadline && !answered {
                        if let Ok((n, _)) = probe.recv_from(&mut buf) { if n == bytes.len() && buf[..2] == id.to_be_bytes() { delivered = true; } }
                        if let Ok((n, _)) = sock.recv_from(&mut buf) { if let Ok(p) = Packet::parse(&buf[..n]) { if p.id() == id && p.has_flags(PacketFlag::RESPONSE) && p.answers.iter().any(|x| same(&regs[0], x)) { answered = true; } } }
                    }
                    if answered { break; }
                }
                if delivered && !answered && ask(QTYPE::TYPE(TYPE::A), name, 0x1311).is_some() {
                    c = c.fail("answer-missing", format!("{} responder: a query of {} bytes with 101 questions, the last one for a registered A record, gets no reply (the datagram reached the group: a probe socket received it; a one-question query is answered)", flavour, bytes.len()));
                } else if answered { c = c.tag("large-query-answered"); }
            }
        }
        if c.oracle_fail.is_none() { c = c.tag("sockets-alive"); }
        c
    }
    let sync_case = std::thread::spawn(move || -> Case {
        use simple_mdns::sync_discovery::SimpleMdnsResponder;
        let name = Name::new_unchecked("verif-c13s._tcp.local").into_owned();
        let mut responder = SimpleMdnsResponder::new(10);
        for r in records(&name) { responder.add_resource(r); }
        std::thread::sleep(Duration::from_millis(300));
        let sock = match UdpSocket::bind("0.0.0.0:0") { Ok(s) => s, Err(_) => return Case::oracle_only().tag("live-responder-answers").tag("sockets-not-exercised") };
        sock.set_read_timeout(Some(Duration::from_millis(200))).ok();
        judge("sync", &name, &sock)
    });
    let tokio_case = std::thread::spawn(move || -> Case {
        use simple_mdns::async_discovery::SimpleMdnsResponder;
        let rt = match tokio::runtime::Builder::new_current_thread().enable_all().build() { Ok(r) => r, Err(_) => return Case::oracle_only().tag("live-responder-answers").tag("sockets-not-exercised") };
        let name = Name::new_unchecked("verif-c13t._tcp.local").into_owned();
        let _guard = rt.enter();
        let mut responder = SimpleMdnsResponder::new(10);
        rt.block_on(async { for r in records(&name) { responder.add_resource(r).await; } tokio::time::sleep(Duration::from_millis(300)).await; });
        let sock = match UdpSocket::bind("0.0.0.0:0") { Ok(s) => s, Err(_) => return Case::oracle_only().tag("live-responder-answers").tag("sockets-not-exercised") };
        sock.set_read_timeout(Some(Duration::from_millis(50))).ok();
        // the responder's task runs on this runtime: drive it from a helper thread while the judge blocks on the socket
        let (tx, rx) = std::sync::mpsc::channel::<()>();
        let name2 = name.clone();
        let judge_thread = std::thread::spawn(move || { let c = judge("tokio", &name2, &sock); let _ = tx.send(()); c });
        rt.block_on(async { while rx.try_recv().is_err() { tokio::time::sleep(Duration::from_millis(10)).await; } });
        judge_thread.join().unwrap_or_else(|_| Case::oracle_only().tag("live-responder-answers").fail("reply-missing", "the live tokio responder case panicked".into()))
    });
    let mut out = vec![];
    for h in [sync_case, tokio_case] { out.push(h.join().unwrap_or_else(|_| Case::oracle_only().tag("live-responder-answers").fail("reply-missing", "the live responder case panicked".into()))); }
    out
}

/// C20 on the running services: a record received with TTL 8 within the listener's first second is still known 6 s later,
/// whatever the background refresh (which first wakes 5 s after start-up, when the record is past its refresh point of
/// half the TTL) does in between - both flavours
pub fn live_short_ttl() -> Vec<Case> {
    use std::net::UdpSocket;
    use std::time::{Duration, Instant};
    let announce = |svc: &str, label: &str, ttl: u32| -> Vec<u8> {
        let service = Name::new_unchecked(svc).into_owned();
        let full = Name::new(&format!("{}.{}", label, svc)).unwrap().into_owned();
        let mut p = Packet::new_reply(0);
        p.answers.push(ResourceRecord::new(service, CLASS::IN, ttl, RData::PTR(PTR(full.clone()))));
        p.answers.push(ResourceRecord::new(full.clone(), CLASS::IN, ttl, RData::SRV(simple_dns::rdata::SRV { priority: 0, weight: 0, port: 8201, target: full.clone() })));
        p.answers.push(ResourceRecord::new(full, CLASS::IN, ttl, RData::A(A { address: 0x7F000003 })));
        p.build_bytes_vec_compressed().unwrap()
    };
    let sync_case = std::thread::spawn(move || -> Case {
        use simple_mdns::sync_discovery::ServiceDiscovery;
        let mut c = Case::oracle_only().tag("live-short-ttl");
        let svc = "_verif20s._tcp.local";
        let me = InstanceInformation::new("watcher".to_string()).with_ip_address(IpAddr::V4(Ipv4Addr::new(127, 0, 0, 1))).with_port(8200);
        let sd = match std::panic::catch_unwind(|| ServiceDiscovery::new(me, svc, 60)) { Ok(Ok(s)) => s, _ => return c.tag("sockets-not-exercised") };
        let sock = match UdpSocket::bind("0.0.0.0:0") { Ok(s) => s, Err(_) => return c.tag("sockets-not-exercised") };
        std::thread::sleep(Duration::from_millis(300));
        let t0 = Instant::now();
        let mut seen = false;
        while t0.elapsed() < Duration::from_secs(2) && !seen {
            let _ = sock.send_to(&announce(svc, "long", 120), "224.0.0.251:5353");
            let _ = sock.send_to(&announce(svc, "short", 8), "224.0.0.251:5353");
            let _ = sock.send_to(&announce(svc, "mid", 32), "224.0.0.251:5353");
            std::thread::sleep(Duration::from_millis(150));
            let k = sd.get_known_services();
            seen = k.iter().any(|i| i.unescaped_instance_name() == "short") && k.iter().any(|i| i.unescaped_instance_name() == "long");
        }
        if !seen { return c.tag("sockets-not-exercised"); }
        let received = Instant::now();
        while received.elapsed() < Duration::from_millis(6000) { std::thread::sleep(Duration::from_millis(100)); }
        let k = sd.get_known_services();
        if !k.iter().any(|i| i.unescaped_instance_name() == "long") { return c.tag("sockets-not-exercised"); }
        if !k.iter().any(|i| i.unescaped_instance_name() == "short") { c = c.fail("cache-expiry", "sync listener: an instance received with TTL 8 is no longer known 6 s later (another one with TTL 120 is)".into()); } else { c = c.tag("sockets-alive"); }
        // ... and one received with TTL 32 is still known 27 s later, although nobody answered the refresh query the
        // listener sent for it at half its life
        if c.oracle_fail.is_none() && k.iter().any(|i| i.unescaped_instance_name() == "mid") {
            while received.elapsed() < Duration::from_millis(27000) { std::thread::sleep(Duration::from_millis(200)); }
            let k = sd.get_known_services();
            if k.iter().any(|i| i.unescaped_instance_name() == "long") && !k.iter().any(|i| i.unescaped_instance_name() == "mid") { c = c.fail("cache-expiry", "sync listener: an instance received with TTL 32 is no longer known 27 s later (another one with TTL 120 is)".into()); }
        }
        c
    });
    let tokio_case = std::thread::spawn(move || -> Case {
        use simple_mdns::async_discovery::ServiceDiscovery;
        let c0 = Case::oracle_only().tag("live-short-ttl").tag("sockets-tokio");
        let rt = match tokio::runtime::Builder::new_current_thread().enable_all().build() { Ok(r) => r, Err(_) => return c0.tag("sockets-not-exercised") };
        rt.block_on(async move {
            let mut c = c0;
            let svc = "_verif20t._tcp.local";
            let me = InstanceInformation::new("watcher".to_string()).with_ip_address(IpAddr::V4(Ipv4Addr::new(127, 0, 0, 1))).with_port(8202);
            let sd = match ServiceDiscovery::new(me, svc, 60) { Ok(s) => s, Err(_) => return c.tag("sockets-not-exercised") };
            let sock = match UdpSocket::bind("0.0.0.0:0") { Ok(s) => s, Err(_) => return c.tag("sockets-not-exercised") };
            tokio::time::sleep(Duration::from_millis(300)).await;
            let t0 = Instant::now();
            let mut seen = false;
            while t0.elapsed() < Duration::from_secs(2) && !seen {
                let _ = sock.send_to(&announce(svc, "long", 120), "224.0.0.251:5353");
                let _ = sock.send_to(&announce(svc, "short", 8), "224.0.0.251:5353");
                let _ = sock.send_to(&announce(svc, "mid", 32), "224.0.0.251:5353");
                tokio::time::sleep(Duration::from_millis(150)).await;
                let k = sd.get_known_services().await;
                seen = k.iter().any(|i| i.unescaped_instance_name() == "short") && k.iter().any(|i| i.unescaped_instance_name() == "long");
            }
            if !seen { return c.tag("sockets-not-exercised"); }
            tokio::time::sleep(Duration::from_millis(6000)).await;
            let k = sd.get_known_services().await;
            if !k.iter().any(|i| i.unescaped_instance_name() == "long") { return c.tag("sockets-not-exercised"); }
            if !k.iter().any(|i| i.unescaped_instance_name() == "short") { c = c.fail("cache-expiry", "tokio listener: an instance received with TTL 8 is no longer known 6 s later (another one with TTL 120 is)".into()); } else { c = c.tag("sockets-alive"); }
            if c.oracle_fail.is_none() && k.iter().any(|i| i.unescaped_instance_name() == "mid") {
                tokio::time::sleep(Duration::from_millis(21000)).await;
                let k = sd.get_known_services().await;
                if k.iter().any(|i| i.unescaped_instance_name() == "long") && !k.iter().any(|i| i.unescaped_instance_name() == "mid") { c = c.fail("cache-expiry", "tokio listener: an instance received with TTL 32 is no longer known 27 s later (another one with TTL 120 is)".into()); }
            }
            c
        })
    });
    let mut out = vec![];
    for h in [sync_case, tokio_case] { out.push(h.join().unwrap_or_else(|_| Case::oracle_only().tag("live-short-ttl").fail("cache-expiry", "the live short-TTL case panicked".into()))); }
    out
}

fn inst_text(i: &InstanceInformation, name: &str) -> String {
    let ips: Vec<String> = i.ip_addresses.iter().map(|ip| match ip { IpAddr::V4(x) => format!("4:{}", u32::from(*x)), IpAddr::V6(x) => format!("6:{}", u128::from(*x)) }).collect();
    let ports: Vec<String> = i.ports.iter().map(|p| p.to_string()).collect();
    let mut attrs: Vec<(String, String)> = i.attributes.iter().map(|(k, v)| (text::hex(k.as_bytes()), match v { None => "-".to_string(), Some(v) => text::hex(v.as_bytes()) })).collect();
    attrs.sort();
    let mut a = attrs.len().to_string();
    for (k, v) in attrs { a.push_str(&format!(" {} {}", k, v)); }
    format!("{} ips {} ports {} attrs {}", text::hex(name.as_bytes()), sorted(ips), sorted(ports), a)
}

pub fn c15(tier: &str, seed: u64) -> Vec<Case> {
    let thorough = tier == "thorough";
    let mut r = Rng::new(seed);
    let mut v = vec![];
    let service_labels = vec![b"_verif".to_vec(), b"_tcp".to_vec(), b"local".to_vec()];
    let service = mk_name(&service_labels);
    let own_labels = { let mut f = vec![b"self".to_vec()]; f.extend(service_labels.clone()); f };
    let own = mk_name(&own_labels);
    let n = if thorough { 30000 } else { 2500 };
    let mut r2enc = Rng::new(seed ^ 0xE1C);
    for it in 0..n {
        let mut store: ResourceRecordManager<'static> = ResourceRecordManager::new();
        let own_ptr = ResourceRecord::new(service.clone(), CLASS::IN, 0, RData::PTR(PTR(own.clone())));
        let own_a = ResourceRecord::new(own.clone(), CLASS::IN, 0, RData::A(A { address: 9 }));
        store.add_authoritative_resource(own_ptr.clone());
        store.add_authoritative_resource(own_a.clone());
        let mut line = format!("mdns A {} A {}", text::rr(&own_ptr), text::rr(&own_a));
        let mut advertised: Vec<(String, InstanceInformation)> = vec![];
        let mut wires: Vec<Vec<u8>> = vec![];
        let peers = r.range(1, 3) as usize;
        let mut has_empty_key = false;
        let mut split_names: Vec<String> = vec![];
        // (names equal to the discoverer's own up to letter case are other instances, reported like any other)
        let mut name_pool = vec!["Self", "SELF", "sElf", "printer", "Printer", "PRINTER", "Living-Room", "living-room", "x", "X", "a1_b", "n0", "a23456789012345678901234567890123456789012345678901234567890123", "b2345678901234567890123456789012345678901234567890123456789012",
            // every class of first character the library's own rule for a label admits: underscore, digit
            "_kitchen", "_x", "9lives", "0", "_sub", "a_1", "4k-tv"];
        for _peer in 0..peers {
            // distinct names within a history; names equal up to letter case are distinct instances
            let iname = name_pool.remove(r.below(name_pool.len() as u64) as usize).to_string();
            let mut inst = InstanceInformation::new(iname.clone());
            for _ in 0..r.below(3) { inst = inst.with_ip_address(IpAddr::V4(Ipv4Addr::from(0x0A000000 + r.below(4) as u32))); }
            // special IPv4 addresses are addresses too: unspecified, loopback, link-local, broadcast, multicast
            if r.chance(1, 5) { inst = inst.with_ip_address(IpAddr::V4(Ipv4Addr::from(*r.pick(&[0u32, 0x7F000001, 0xA9FE0101, 0xFFFFFFFF, 0xE00000FB, 0x00000001, 0xC0A80001])))); }
            for _ in 0..r.below(2) {
                // link-local, IPv4-mapped (::ffff:a.b.c.d, possibly of an IPv4 address of the same instance),
                // IPv4-compatible, loopback, unspecified and arbitrary addresses
                let a: u128 = match r.below(7) {
                    0 | 1 => (0xFE80u128 << 112) + r.below(3) as u128,
                    2 => (0xFFFFu128 << 32) + 0x0A000000 + r.below(4) as u128,
                    3 => 0x0A000000 + r.below(4) as u128,
                    4 => r.below(2) as u128,
                    _ => r.int(128),
                };
                inst = inst.with_ip_address(IpAddr::V6(Ipv6Addr::from(a)));
            }
            for _ in 0..r.below(3) { inst = inst.with_port(*r.pick(&[8000u16, 8001, 8002, 8000, 8001, 0, 65535, 1])); }
            // address and port given together
            if r.chance(1, 4) { inst = inst.with_socket_address(std::net::SocketAddr::new(IpAddr::V4(Ipv4Addr::from(0x0A000000 + r.below(4) as u32)), 8000 + r.below(3) as u16)); }
            {
                let pairs: Vec<std::net::SocketAddr> = inst.get_socket_addresses().collect();
                let mut cc = Case::oracle_only().tag("socket-addresses");
                if pairs.len() != inst.ip_addresses.len() * inst.ports.len() || inst.ip_addresses.iter().any(|ip| inst.ports.iter().any(|p| !pairs.contains(&std::net::SocketAddr::new(*ip, *p)))) {
                    cc = cc.fail("socket-addresses", format!("get_socket_addresses yields {} pairs for {} addresses and {} ports", pairs.len(), inst.ip_addresses.len(), inst.ports.len()));
                }
                v.push(cc);
            }
            // up to three attributes mostly; now and then a dozen, and several IPv6 addresses
            if r.chance(1, 10) { for k in 0..r.range(2, 5) { inst = inst.with_ip_address(IpAddr::V6(Ipv6Addr::from((0xFD00u128 << 112) + k as u128))); } }
            let nattr = if r.chance(1, 10) { r.range(8, 24) } else { r.below(4) };
            for na in 0..nattr {
                let key = if r.chance(1, 30) { String::new() } else if na >= 4 { format!("key{}", na) } else { r.pick(&["path", "v", "é", "k k", "a;b", "Path", "PATH", "ID", "É", "Key9", " lead", "trail ", " both ", "\ttab", "nb\u{a0}"]).to_string() };
                has_empty_key |= key.is_empty();
                let val = match r.below(16) { 0..=4 => None, 5..=9 => Some(String::new()), 15 if !key.is_empty() => Some("v".repeat(254 - key.len() - r.below(2) as usize)), _ => Some(r.pick(&["1", "=x=", "ü", "a b", "hello ", "  x", " ", "\t", "x\n", "\u{a0}y\u{a0}"]).to_string()) };
                inst = inst.with_attribute(key, val);
            }
            let full = Name::new(&format!("{}.{}", inst.escaped_instance_name(), "_verif._tcp.local")).unwrap().into_owned();
            let records = inst.clone().into_records(&full, 120).unwrap();
            // announcement: a response packet, compressed, sometimes with foreign and own records mixed in
            let mut p = Packet::new_reply(0);
            for rec in records { p.answers.push(rec); }
            if r.chance(1, 3) { p.answers.push(ResourceRecord::new(mk_name(&[b"other".to_vec(), b"_http".to_vec(), b"_tcp".to_vec(), b"local".to_vec()]), CLASS::IN, 120, RData::A(A { address: 77 }))); }
            if r.chance(1, 3) { p.additional_records.push(ResourceRecord::new(own.clone(), CLASS::IN, 120, RData::A(A { address: 66 }))); }
            // ... or among the answers, in front of or behind the peer's records (multicast loopback hands a host its own
            // announcements back; a peer may answer for several names at once)
            if r.chance(1, 4) { let rec = ResourceRecord::new(own.clone(), CLASS::IN, 120, RData::A(A { address: 67 })); if r.chance(1, 2) { p.answers.insert(0, rec); } else { p.answers.push(rec); } }
            // records of a host and of another service's instance riding along in the additional section
            if r.chance(1, 3) {
                p.additional_records.push(ResourceRecord::new(mk_name(&[b"host".to_vec(), b"local".to_vec()]), CLASS::IN, 120, RData::A(A { address: 0x0A090909 })));
                let foreign = mk_name(&[b"other".to_vec(), b"_http".to_vec(), b"_tcp".to_vec(), b"local".to_vec()]);
                p.additional_records.push(ResourceRecord::new(foreign.clone(), CLASS::IN, 120, RData::SRV(simple_dns::rdata::SRV { priority: 0, weight: 0, port: 9999, target: foreign.clone() })));
                p.additional_records.push(ResourceRecord::new(foreign, CLASS::IN, 120, RData::TXT(simple_dns::rdata::TXT::new().with_string("other=yes").unwrap())));
            }
            if r.chance(1, 3) { p.answers.push(ResourceRecord::new(service.clone(), CLASS::IN, 120, RData::PTR(PTR(full.clone())))); }
            // some peers first say goodbye (the same records with TTL 0) and then announce: what was
            // received last counts
            if r.chance(1, 3) {
                let mut bye = p.clone();
                for rec in bye.answers.iter_mut() { rec.ttl = 0; }
                let wire = bye.build_bytes_vec_compressed().unwrap();
                wires.push(wire.clone());
                let parsed = Packet::parse(&wire).unwrap();
                line.push_str(&format!(" I 0 {} {} {}", text::name(&service), text::name(&own), text::packet(&parsed)));
                let mut ch = None;
                sync_add_response_to_resources(parsed, &service, &own, &mut store, &mut ch);
            }
            // what another implementation puts on the wire: every fourth announcement is encoded by the independent
            // reference encoder (RFC field layouts, its own compression choices) instead of the library's writer
            // one peer in four sends its records in two responses (SRV and TXT first, the addresses later - an answer to an
            // SRV question followed by an answer to an address question): what is known accumulates
            let parts: Vec<Packet<'static>> = if r.chance(1, 4) {
                let (mut first, mut second) = (p.clone(), p.clone());
                first.answers.retain(|x| !matches!(x.rdata, RData::A(_) | RData::AAAA(_)));
                second.answers.retain(|x| matches!(x.rdata, RData::A(_) | RData::AAAA(_)));
                second.additional_records.clear();
                if second.answers.is_empty() { vec![first] } else if r.chance(1, 2) { vec![first, second] } else { vec![second, first] }
            } else { vec![p] };
            let mut rejected = false;
            // (the on_discovery channel reports what each response says; an instance whose records come in two responses
            // is reported in two parts there, and whole by `get_known_services`)
            if parts.len() > 1 { split_names.push(iname.clone()); }
            for p in parts {
                let wire = if r.chance(1, 4) { crate::refenc::encode_packet(&text::packet(&p), crate::refenc::Compress::Random(&mut r2enc, 6), false, None).0 } else { p.build_bytes_vec_compressed().unwrap() };
                wires.push(wire.clone());
                let parsed = match Packet::parse(&wire) { Ok(x) => x, Err(_) => { v.push(Case::oracle_only().tag("reference-announcement").fail("discovery-differs", "an announcement encoded by the reference encoder is rejected".into())); rejected = true; break; } };
                line.push_str(&format!(" I 0 {} {} {}", text::name(&service), text::name(&own), text::packet(&parsed)));
                let mut ch = None;
                sync_add_response_to_resources(parsed, &service, &own, &mut store, &mut ch);
            }
            if rejected { continue; }
            advertised.push((iname, inst));
        }
        line.push_str(&format!(" K {} 1", text::name(&service)));
        let found: Vec<InstanceInformation> = store.get_domain_resources(&service, DomainResourceFilter::cached()).filter_map(|rs| instance_from_records(&service, rs)).collect();
        let out = sorted(found.iter().map(|i| inst_text(i, &i.unescaped_instance_name())).collect());
        let mut c = Case::new(line, out).tag(&format!("peers:{}", peers));
        // the property: exactly the advertised instances, nothing of the discoverer's own or of foreign services
        let want = sorted(advertised.iter().map(|(n, i)| inst_text(i, n)).collect());
        let got = sorted(found.iter().map(|i| inst_text(i, &i.unescaped_instance_name())).collect());
        if want != got {
            // with an empty key in play the recorded finding explains a difference in the attributes only: the same comparison
            // without attributes must still agree (names, addresses, ports), or it is another failure
            let strip = |t: &str| t.split(" attrs ").next().unwrap_or(t).to_string();
            let want_core = sorted(advertised.iter().map(|(n, i)| strip(&inst_text(i, n))).collect());
            let got_core = sorted(found.iter().map(|i| strip(&inst_text(i, &i.unescaped_instance_name()))).collect());
            if has_empty_key && want_core == got_core { c = c.fail_if_nothing_else("empty-attribute-key", format!("advertised {} discovered {}", want, got)); }
            else { c = c.fail("discovery-differs", format!("advertised {} discovered {}", want, got)); }
        }
        if it % 50 == 0 { c = c.tag("sample"); }
        // the reports on the on_discovery channel: every announcement is reported, through the std channel
        // of the sync flavour and through a tokio channel of capacity 1 whose reader is slow (the sender
        // has to wait, it may not drop a report)
        if it % 8 == 0 {
            let (tx, rx) = std::sync::mpsc::channel::<InstanceInformation>();
            let mut st2: ResourceRecordManager<'static> = ResourceRecordManager::new();
            let mut ch = Some(tx);
            let mut all_sync_reports: Vec<String> = vec![];
            for w in &wires {
                let p = Packet::parse(w).unwrap();
                let ptxt = text::packet(&p);
                sync_add_response_to_resources(p, &service, &own, &mut st2, &mut ch);
                // what this one response put on the channel, against the model's `reports`
                let these: Vec<String> = rx.try_iter().map(|i| inst_text(&i, &i.unescaped_instance_name())).collect();
                v.push(Case::new(format!("mdns P {} {} {}", text::name(&service), text::name(&own), ptxt), sorted(these.clone())).tag("channel-report"));
                all_sync_reports.extend(these);
            }
            drop(ch);
            let sync_reports: Vec<String> = all_sync_reports;
            let (wires_c, service_c, own_c) = (wires.clone(), service.clone(), own.clone());
            watch("async on_discovery channel");
            let async_reports: Vec<String> = {
                let rt = tokio::runtime::Builder::new_current_thread().build().unwrap();
                rt.block_on(async move {
                    let (tx, mut rx) = tokio::sync::mpsc::channel::<InstanceInformation>(1);
                    let producer = tokio::spawn(async move {
                        let mut st3: ResourceRecordManager<'static> = ResourceRecordManager::new();
                        let mut ch = Some(tx);
                        for w in &wires_c { let p = Packet::parse(w).unwrap(); simple_mdns::verif::async_add_response_to_resources(p, &service_c, &own_c, &mut st3, &mut ch).await; }
                    });
                    for _ in 0..16 { tokio::task::yield_now().await; }
                    let mut got = vec![];
                    while let Some(i) = rx.recv().await { got.push(inst_text(&i, &i.unescaped_instance_name())); }
                    let _ = producer.await;
                    got
                })
            };
            // a channel whose reader has gone away (the application dropped the receiver): the announcements are
            // cached all the same, in both flavours
            {
                let (tx, rx) = std::sync::mpsc::channel::<InstanceInformation>();
                drop(rx);
                let mut st4: ResourceRecordManager<'static> = ResourceRecordManager::new();
                st4.add_authoritative_resource(own_ptr.clone());
                st4.add_authoritative_resource(own_a.clone());
                let mut ch = Some(tx);
                for w in &wires { let p = Packet::parse(w).unwrap(); sync_add_response_to_resources(p, &service, &own, &mut st4, &mut ch); }
                let found4: Vec<InstanceInformation> = st4.get_domain_resources(&service, DomainResourceFilter::cached()).filter_map(|rs| instance_from_records(&service, rs)).collect();
                let got4 = sorted(found4.iter().map(|i| inst_text(i, &i.unescaped_instance_name())).collect());
                let (wires_d, service_d, own_d, own_ptr_d, own_a_d) = (wires.clone(), service.clone(), own.clone(), own_ptr.clone(), own_a.clone());
                let got5 = {
                    let rt = tokio::runtime::Builder::new_current_thread().build().unwrap();
                    rt.block_on(async move {
                        let (tx, rx) = tokio::sync::mpsc::channel::<InstanceInformation>(1);
                        drop(rx);
                        let mut st5: ResourceRecordManager<'static> = ResourceRecordManager::new();
                        st5.add_authoritative_resource(own_ptr_d);
                        st5.add_authoritative_resource(own_a_d);
                        let mut ch = Some(tx);
                        for w in &wires_d { let p = Packet::parse(w).unwrap(); simple_mdns::verif::async_add_response_to_resources(p, &service_d, &own_d, &mut st5, &mut ch).await; }
                        let f: Vec<InstanceInformation> = st5.get_domain_resources(&service_d, DomainResourceFilter::cached()).filter_map(|rs| instance_from_records(&service_d, rs)).collect();
                        sorted(f.iter().map(|i| inst_text(i, &i.unescaped_instance_name())).collect())
                    })
                };
                let mut cd = Case::oracle_only().tag("closed-channel");
                if got4 != got { cd = cd.fail("closed-channel-differs", format!("with a closed on_discovery channel the sync flavour knows {} instead of {}", got4, got)); }
                if got5 != got { cd = cd.fail("closed-channel-differs", format!("with a closed on_discovery channel the tokio flavour knows {} instead of {}", got5, got)); }
                v.push(cd);
            }
            let mut cc = Case::oracle_only().tag("on-discovery-channel");
            if sync_reports != async_reports { cc = cc.fail("reports-differ", format!("sync flavour reported {} instance(s), the tokio flavour with a slow reader {}", sync_reports.len(), async_reports.len())); }
            for (n, i) in &advertised { let t = inst_text(i, n); if !has_empty_key && !split_names.contains(n) && !sync_reports.contains(&t) { cc = cc.fail("not-reported", format!("advertised instance {} was never reported on the channel", n)); } }
            v.push(cc);
        }
        v.push(c);
    }
    // a peer that hosts two instances of the service announces both in ONE response (what a responder does
    // when asked for the service's PTR records): each must be reported as itself on the on_discovery channel
    for it in 0..(if thorough { 600 } else { 60 }) {
        let mut p = Packet::new_reply(0);
        let mut advertised: Vec<(String, InstanceInformation)> = vec![];
        let names = if it % 2 == 0 { ["alpha", "beta"] } else { ["Printer", "printer"] };
        for (k, nm) in names.iter().enumerate() {
            let mut inst = InstanceInformation::new(nm.to_string()).with_ip_address(IpAddr::V4(Ipv4Addr::from(0x0A000010 + (k as u32) + 2 * r.below(3) as u32))).with_port(8100 + k as u16 + 2 * r.below(2) as u16);
            if r.chance(1, 2) { inst = inst.with_attribute("id".to_string(), Some(format!("{}", k))); }
            let full = Name::new(&format!("{}.{}", inst.escaped_instance_name(), "_verif._tcp.local")).unwrap().into_owned();
            let recs = inst.clone().into_records(&full, 120).unwrap();
            for (j, rec) in recs.into_iter().enumerate() { if (j + it) % 3 == 0 { p.additional_records.push(rec) } else { p.answers.push(rec) } }
            advertised.push((nm.to_string(), inst));
        }
        if it % 3 == 0 { p.answers.reverse(); }
        let wire = p.build_bytes_vec_compressed().unwrap();
        let (tx, rx) = std::sync::mpsc::channel::<InstanceInformation>();
        let mut st: ResourceRecordManager<'static> = ResourceRecordManager::new();
        // a running discovery always holds the PTR record of its own instance under the service name
        st.add_authoritative_resource(ResourceRecord::new(service.clone(), CLASS::IN, 0, RData::PTR(PTR(own.clone()))));
        let mut ch = Some(tx);
        sync_add_response_to_resources(Packet::parse(&wire).unwrap(), &service, &own, &mut st, &mut ch);
        drop(ch);
        let reports = sorted(rx.iter().map(|i| inst_text(&i, &i.unescaped_instance_name())).collect());
        let (wire_c, service_c, own_c) = (wire.clone(), service.clone(), own.clone());
        let areports = {
            let rt = tokio::runtime::Builder::new_current_thread().build().unwrap();
            rt.block_on(async move {
                let (tx, mut rx) = tokio::sync::mpsc::channel::<InstanceInformation>(8);
                let mut st3: ResourceRecordManager<'static> = ResourceRecordManager::new();
                let mut ch = Some(tx);
                simple_mdns::verif::async_add_response_to_resources(Packet::parse(&wire_c).unwrap(), &service_c, &own_c, &mut st3, &mut ch).await;
                drop(ch);
                let mut got = vec![];
                while let Some(i) = rx.recv().await { got.push(inst_text(&i, &i.unescaped_instance_name())); }
                sorted(got)
            })
        };
        let want = sorted(advertised.iter().map(|(n, i)| inst_text(i, n)).collect());
        let known = sorted(st.get_domain_resources(&service, DomainResourceFilter::cached()).filter_map(|rs| instance_from_records(&service, rs)).map(|i| inst_text(&i, &i.unescaped_instance_name())).collect());
        let mut c = Case::new(format!("mdns P {} {} {}", text::name(&service), text::name(&own), text::packet(&Packet::parse(&wire).unwrap())), reports.clone()).tag("two-instances-one-response");
        if known != want { c = c.fail("discovery-differs", format!("advertised {} known {}", want, known)); }
        if reports != want { c = c.fail("reports-merged", format!("two instances announced in one response: advertised {} ; reported on the channel {}", want, reports)); }
        else if areports != want { c = c.fail("reports-merged", format!("tokio flavour: advertised {} ; reported on the channel {}", want, areports)); }
        v.push(c);
    }
    // what other implementations advertise: the instance is ONE label whatever characters it holds (RFC 6763 4.1.1 allows
    // dots, spaces, backslashes in it). The name reported for it is the text of that label, character for character, on the
    // channel and among the known services, in both flavours
    for (k, label) in ["Front.Desk", "a\\b", "x.y.z", ".lead", "trail.", "dot\\.slash", "two words", "Living Room (2)", "a..b", "\\", ".", "plain"].iter().enumerate() {
        let full = mk_name(&[label.as_bytes().to_vec(), b"_verif".to_vec(), b"_tcp".to_vec(), b"local".to_vec()]);
        let mut p = Packet::new_reply(0);
        p.answers.push(ResourceRecord::new(service.clone(), CLASS::IN, 120, RData::PTR(PTR(full.clone()))));
        p.answers.push(ResourceRecord::new(full.clone(), CLASS::IN, 120, RData::SRV(simple_dns::rdata::SRV { priority: 0, weight: 0, port: 8000 + k as u16, target: full.clone() })));
        p.answers.push(ResourceRecord::new(full.clone(), CLASS::IN, 120, RData::TXT(simple_dns::rdata::TXT::new().with_string("id=1").unwrap())));
        p.additional_records.push(ResourceRecord::new(full.clone(), CLASS::IN, 120, RData::A(A { address: 0x0A000020 + k as u32 })));
        let wire = if k % 2 == 0 { p.build_bytes_vec_compressed().unwrap() } else { crate::refenc::encode_packet(&text::packet(&p), crate::refenc::Compress::Random(&mut r2enc, 6), false, None).0 };
        let mut c = Case::oracle_only().tag("foreign-instance-label");
        let parsed = match Packet::parse(&wire) { Ok(x) => x, Err(_) => { v.push(c.fail("discovery-differs", format!("an announcement of the instance label {:?} is rejected", label))); continue; } };
        let (tx, rx) = std::sync::mpsc::channel::<InstanceInformation>();
        let mut st: ResourceRecordManager<'static> = ResourceRecordManager::new();
        st.add_authoritative_resource(ResourceRecord::new(service.clone(), CLASS::IN, 0, RData::PTR(PTR(own.clone()))));
        let mut ch = Some(tx);
        sync_add_response_to_resources(parsed, &service, &own, &mut st, &mut ch);
        drop(ch);
        let reported: Vec<String> = rx.iter().map(|i| i.escaped_instance_name()).collect();
        let known: Vec<String> = st.get_domain_resources(&service, DomainResourceFilter::cached()).filter_map(|rs| instance_from_records(&service, rs)).map(|i| i.escaped_instance_name()).collect();
        let (wire_c, service_c, own_c) = (wire.clone(), service.clone(), own.clone());
        let areported: Vec<String> = {
            let rt = tokio::runtime::Builder::new_current_thread().build().unwrap();
            rt.block_on(async move {
                let (tx, mut rx) = tokio::sync::mpsc::channel::<InstanceInformation>(8);
                let mut st3: ResourceRecordManager<'static> = ResourceRecordManager::new();
                let mut ch = Some(tx);
                simple_mdns::verif::async_add_response_to_resources(Packet::parse(&wire_c).unwrap(), &service_c, &own_c, &mut st3, &mut ch).await;
                drop(ch);
                let mut got = vec![];
                while let Some(i) = rx.recv().await { got.push(i.escaped_instance_name()); }
                got
            })
        };
        // (the name an `InstanceInformation` holds is observable through its escaped form, which determines it)
        let want = vec![InstanceInformation::new(label.to_string()).escaped_instance_name()];
        if reported != want { c = c.fail("discovery-differs", format!("a peer advertises the one-label instance {:?}; reported on the channel as {:?}", label, reported)); }
        else if known != want { c = c.fail("discovery-differs", format!("a peer advertises the one-label instance {:?}; known as {:?}", label, known)); }
        else if areported != want { c = c.fail("discovery-differs", format!("a peer advertises the one-label instance {:?}; the tokio flavour reports {:?}", label, areported)); }
        v.push(c);
    }
    v.push(live_with_baseline("sync discovery pair", &live_pair));
    v.push(live_with_baseline("tokio discovery pair", &|| match std::panic::catch_unwind(|| { let rt = tokio::runtime::Builder::new_current_thread().enable_all().build().unwrap(); rt.block_on(live_pair_tokio()) }) {
        Ok(c) => c,
        Err(_) => Case::oracle_only().tag("sockets-pair").fail("live-discovery-panic", "tokio pair: a ServiceDiscovery call panicked".into()),
    }));
    v.push(live_with_baseline("late joiner", &live_late_joiner));
    // a peer that leaves says goodbye with the cache-flush bit (what `remove_service_from_discovery` sends: the same
    // records, `to_cache_flush_record`): through the discovery pipeline (wire, parse, filter, into_owned, store) the
    // instance is gone from the known services a little more than a second later, in both flavours
    {
        let inst = InstanceInformation::new("leaver".to_string()).with_ip_address(IpAddr::V4(Ipv4Addr::new(10, 7, 7, 7))).with_port(8300);
        let full = Name::new("leaver._verif._tcp.local").unwrap().into_owned();
        let recs = inst.clone().into_records(&full, 4500).unwrap();
        let mut hello = Packet::new_reply(0);
        for rec in &recs { hello.answers.push(rec.clone()); }
        let mut bye = Packet::new_reply(0);
        for rec in &recs { bye.answers.push(rec.to_cache_flush_record()); }
        let (hw, bw) = (hello.build_bytes_vec_compressed().unwrap(), bye.build_bytes_vec_compressed().unwrap());
        let mk_store = || { let mut st: ResourceRecordManager<'static> = ResourceRecordManager::new(); st.add_authoritative_resource(ResourceRecord::new(service.clone(), CLASS::IN, 0, RData::PTR(PTR(own.clone())))); st };
        let mut st_sync = mk_store();
        let mut st_async = mk_store();
        let mut ch = None;
        sync_add_response_to_resources(Packet::parse(&hw).unwrap(), &service, &own, &mut st_sync, &mut ch);
        sync_add_response_to_resources(Packet::parse(&bw).unwrap(), &service, &own, &mut st_sync, &mut ch);
        {
            let rt = tokio::runtime::Builder::new_current_thread().build().unwrap();
            rt.block_on(async {
                let mut ch = None;
                simple_mdns::verif::async_add_response_to_resources(Packet::parse(&hw).unwrap(), &service, &own, &mut st_async, &mut ch).await;
                simple_mdns::verif::async_add_response_to_resources(Packet::parse(&bw).unwrap(), &service, &own, &mut st_async, &mut ch).await;
            });
        }
        let known = |st: &ResourceRecordManager<'static>| -> usize { st.get_domain_resources(&service, DomainResourceFilter::cached()).filter_map(|rs| instance_from_records(&service, rs)).filter(|i| i.unescaped_instance_name() == "leaver").count() };
        let at_once = (known(&st_sync), known(&st_async));
        std::thread::sleep(std::time::Duration::from_millis(1300));
        let later = (known(&st_sync), known(&st_async));
        let mut c = Case::oracle_only().tag("goodbye-with-cache-flush");
        if at_once != (1, 1) { c = c.fail("discovery-differs", format!("right after the goodbye (cache-flush records live one more second) the instance is known {} / {} times (sync / tokio)", at_once.0, at_once.1)); }
        if later != (0, 0) { c = c.fail("goodbye-ignored", format!("1.3 s after a goodbye with the cache-flush bit the instance is still known (sync {}, tokio {})", later.0, later.1)); }
        v.push(c);
    }
    // every single character of the first planes, alone and between two letters
    for cp in (0u32..0x300).chain([0x2028, 0xFFFD, 0xFFFF, 0x1F600]) {
        if let Some(ch) = char::from_u32(cp) {
            for s in [ch.to_string(), format!("a{}b", ch), format!("{}7", ch), format!("\\{}", ch)] {
                let esc = InstanceInformation::new(s.clone()).escaped_instance_name();
                let back = InstanceInformation::new(esc.clone()).unescaped_instance_name();
                let mut c = Case::new(format!("escape {}", text::hex(s.as_bytes())), text::hex(esc.as_bytes())).tag("escape").tag("escape-sweep");
                if back != s { c = c.fail("escape-roundtrip", format!("{:?} -> {:?} -> {:?}", s, esc, back)); }
                v.push(c);
            }
        }
    }
    // escaping then unescaping an instance name returns the original
    for _ in 0..(if thorough { 20000 } else { 2000 }) {
        let len = r.below(10) as usize;
        // the escape characters and plain text mostly; every third string over everything a name can hold - digits (what a
        // `\DDD` scheme would read back), control characters, DEL, NUL, quotes, other scripts, an emoji
        let s: String = if r.chance(1, 3) { (0..len).map(|_| *r.pick(&['\t', '\n', '\r', '\0', '\u{7f}', '\u{1}', '\u{1b}', '0', '1', '2', '9', '7', '\\', '.', '"', '\'', '%', 'x', 'ß', '日', '\u{1F600}', '\u{202e}'])).collect() }
            else { (0..len).map(|_| *r.pick(&['a', '.', '\\', 'é', ' ', '\u{13B}', 'z', '-'])).collect() };
        let esc = InstanceInformation::new(s.clone()).escaped_instance_name();
        let back = InstanceInformation::new(esc.clone()).unescaped_instance_name();
        let mut c = Case::new(format!("escape {}", text::hex(s.as_bytes())), text::hex(esc.as_bytes())).tag("escape");
        if back != s { c = c.fail("escape-roundtrip", format!("{:?} -> {:?} -> {:?}", s, esc, back)); }
        v.push(c);
        let un = InstanceInformation::new(s.clone()).unescaped_instance_name();
        v.push(Case::new(format!("unescape {}", text::hex(s.as_bytes())), text::hex(un.as_bytes())).tag("unescape"));
    }
    let _ = HashMap::<u8, u8>::new();
    v
}
