//! C01 — parsing untrusted bytes never panics, hangs or over-allocates.
use crate::alloc::metered;
use crate::core::*;
use crate::gen::{Gen, N_KINDS, KIND_NAMES};
use crate::text;
use simple_dns::*;
use std::time::Instant;

/// heap budget for parsing `n` bytes. One record costs `size_of::<ResourceRecord>()` (144 bytes,
/// doubled by `Vec` growth) and a two-byte pointer can expand to 127 labels of 24 bytes each, again
/// doubled, for every 12 bytes of input: about 560 bytes per input byte in the worst case.
/// tiny messages whose question name is a pointer into the 12 header bytes, the header byte it lands on being a
/// label length that makes the label end one before, at, or one past the end of the message (the label then covers
/// the pointer's own octets); with and without QTYPE/QCLASS after the name; and an MX record whose exchange is a
/// pointer to the low octet of its own preference (the RDATA is parsed on a slice cut at RDLENGTH)
pub fn pointer_into_header_messages() -> Vec<Vec<u8>> {
    let mut out = vec![];
    for t in 0..12usize {
        for tail in [0usize, 4] {
            for d in [-1i64, 0, 1] {
                let mut m = vec![0u8, 0, 0, 0, 0, 1, 0, 0, 0, 0, 0, 0, 0xC0, t as u8];
                m.extend(std::iter::repeat(1u8).take(tail));
                let l = m.len() as i64 - t as i64 - 1 + d;
                if l < 1 || l > 63 { continue; }
                m[t] = l as u8;
                if t == 2 || t == 3 { m[2] &= 0x7F; m[3] &= 0xBF; }
                out.push(m);
            }
        }
    }
    for pref_low in [1u8, 2, 3, 4] {
        // header, answer: owner root, MX, RDLENGTH 4: preference (0, pref_low), exchange = pointer to the preference's low octet
        let mut m = vec![0u8, 0, 0x80, 0, 0, 0, 0, 1, 0, 0, 0, 0, 0, 0, 15, 0, 1, 0, 0, 0, 0, 0, 4, 0, pref_low];
        let at = m.len() - 1;
        m.push(0xC0 | (at >> 8) as u8); m.push(at as u8);
        out.push(m.clone());
        m.extend_from_slice(&[0, 0, 1, 0, 1, 0, 0, 0, 0, 0, 4, 1, 2, 3, 4]);
        m[7] = 2;
        out.push(m);
    }
    out
}

pub fn heap_budget(n: usize) -> usize {
    640 * n + 16 * 1024
}
/// time budget for one input in this (debug-assertion) build
pub const TIME_BUDGET_MS: u128 = 4000;

pub fn parse_case(b: &[u8], tag: &str) -> Case {
    let bb = b.to_vec();
    watch(&format!("parse {}", text::hex(b)));
    let t0 = Instant::now();
    let (out, heap) = metered(|| {
        guard(move || match Packet::parse(&bb) {
            Ok(p) => format!("ok {}", text::packet(&p)),
            Err(_) => "err".to_string(),
        })
    });
    let ms = t0.elapsed().as_millis();
    let class = class_of(&out).to_string();
    let mut c = Case::new(format!("parse {}", text::hex(b)), out).proj(Proj::NoPanic).tag(tag).tag(&format!("outcome:{}", class));
    c.nontrivial = b.len() > 12;
    if class == "panic" {
        c = c.fail("parse-panic", format!("Packet::parse panicked on {} bytes", b.len()));
    }
    // the canonical text itself allocates; budget checked on the parse alone below
    let bb = b.to_vec();
    let (_, heap_parse) = metered(|| { let _ = std::panic::catch_unwind(move || { let _ = Packet::parse(&bb); }); });
    let _ = heap;
    if heap_parse > heap_budget(b.len()) {
        c = c.fail("parse-heap", format!("{} bytes of heap for {} bytes of input (budget {})", heap_parse, b.len(), heap_budget(b.len())));
    }
    if ms > TIME_BUDGET_MS {
        c = c.fail("parse-time", format!("{} ms for {} bytes of input", ms, b.len()));
    }
    c
}

fn peek_cases(b: &[u8], v: &mut Vec<Case>) {
    let h = text::hex(b);
    macro_rules! pk {
        ($name:expr, $e:expr, $f:expr) => {{
            let bb = b.to_vec();
            let out = guard(move || match $e(&bb[..]) { Ok(x) => format!("ok {}", $f(x)), Err(_) => "err".to_string() });
            let mut c = Case::new(format!("peek {} {} 0", $name, h), out.clone()).tag("peek").tag(&format!("peeklen:{}", b.len()));
            if out == "panic" { c = c.fail("peek-panic", format!("header_buffer::{} panicked on a {}-byte buffer", $name, b.len())); }
            v.push(c);
        }};
    }
    pk!("id", header_buffer::id, |x: u16| x.to_string());
    pk!("questions", header_buffer::questions, |x: u16| x.to_string());
    pk!("answers", header_buffer::answers, |x: u16| x.to_string());
    pk!("name_servers", header_buffer::name_servers, |x: u16| x.to_string());
    pk!("additional_records", header_buffer::additional_records, |x: u16| x.to_string());
    pk!("rcode", header_buffer::rcode, |x: RCODE| (x as u16).to_string());
    pk!("opcode", header_buffer::opcode, |x: OPCODE| (x as u16).to_string());
    for f in text::ALL_FLAGS.iter().take(2) {
        let bb = b.to_vec();
        let ff = *f;
        let out = guard(move || match header_buffer::has_flags(&bb, ff) { Ok(x) => format!("ok {}", x as u8), Err(_) => "err".to_string() });
        let mut c = Case::new(format!("peek has_flags {} {}", h, f.bits()), out.clone()).tag("peek");
        if out == "panic" { c = c.fail("peek-panic", format!("header_buffer::has_flags panicked on a {}-byte buffer", b.len())); }
        v.push(c);
    }
}

pub fn cases(tier: &str, seed: u64) -> Vec<Case> {
    let thorough = tier == "thorough";
    let mut v: Vec<Case> = Vec::new();
    let mut g = Gen::new(seed);
    // messages that are also parsed on a small stack at the end (see `stack_probe`)
    let mut deep: Vec<Vec<u8>> = vec![];
    // header-peek functions on every short buffer length
    for len in 0..=13usize {
        for fill in 0..4 {
            let b: Vec<u8> = match fill { 0 => vec![0; len], 1 => vec![0xFF; len], _ => g.rng.bytes(len) };
            peek_cases(&b, &mut v);
            v.push(parse_case(&b, "short"));
        }
    }
    // counts without a body
    for counts in [[0xFFFFu16, 0, 0, 0], [0, 0xFFFF, 0, 0], [0, 0, 0xFFFF, 0], [0, 0, 0, 0xFFFF], [0xFFFF; 4]] {
        let mut b = vec![0u8, 1, 0, 0];
        for c in counts { b.extend_from_slice(&c.to_be_bytes()); }
        v.push(parse_case(&b, "counts-only"));
        // and followed by a long run of minimal records
        let mut b2 = b.clone();
        for _ in 0..(if thorough { 5000 } else { 600 }) { b2.extend_from_slice(&[0, 0, 1, 0, 1, 0, 0, 0, 0, 0, 0]); }
        v.push(parse_case(&b2, "counts-minimal-records"));
    }
    // a valid message per record type: every truncation, ±1 on every byte (covers every length-like field)
    let reps = if thorough { 12 } else { 1 };
    for rep in 0..reps {
        for kind in 0..N_KINDS {
            // (the sweep below touches every byte: a message of moderate size, drawn again when the generator made a
            // record of kilobytes - those are for the other blocks)
            let mut p = Packet::new_reply(g.rng.next() as u16);
            for _attempt in 0..12 {
                p = Packet::new_reply(g.rng.next() as u16);
                if g.rng.chance(1, 2) { p.questions.push(g.question()); }
                p.answers.push(g.rr_of(kind));
                if g.rng.chance(1, 2) { p.additional_records.push(g.rr_of(kind)); }
                if g.rng.chance(1, 4) { *p.opt_mut() = Some(g.opt()); }
                if p.build_bytes_vec().map(|b| b.len() <= 1200).unwrap_or(false) { break; }
            }
            let plain = p.build_bytes_vec().unwrap();
            if plain.len() > 4000 { continue; }
            let comp = p.build_bytes_vec_compressed().unwrap();
            let tag = format!("type:{}", KIND_NAMES[kind]);
            for bytes in [&plain, &comp] {
                if bytes.len() > 700 && rep > 0 { continue; }
                v.push(parse_case(bytes, &tag));
                let step = if bytes.len() > 400 { 7 } else { 1 };
                for cut in (0..bytes.len()).step_by(step) {
                    v.push(parse_case(&bytes[..cut], "truncation"));
                }
                for i in (0..bytes.len()).step_by(step) {
                    for d in [1u8, 0xFF] {
                        let mut m = bytes.to_vec();
                        m[i] = m[i].wrapping_add(d);
                        v.push(parse_case(&m, "byte±1"));
                    }
                }
                // every pair of adjacent bytes set to the extremes of a 16-bit length (arithmetic on a
                // length read from the wire must not overflow in its own width)
                for i in (0..bytes.len().saturating_sub(1)).step_by(step) {
                    for val in [0xFFFFu16, 0xFFFC, 0x8000] {
                        let mut m = bytes.to_vec();
                        m[i..i + 2].copy_from_slice(&val.to_be_bytes());
                        v.push(parse_case(&m, "u16-extreme"));
                    }
                }
            }
        }
    }
    // pointer graphs of every shape behind a question header: bounded-exhaustive over a small alphabet;
    // pointers may also lead into the header, whose bytes are then labels: for each body the header
    // bytes 0, 1 and 5 are also set so that a label starting there ends at, one before, or one past
    // the end of the message
    let alpha: [u8; 8] = [0x00, 0x01, 0x05, 0x3F, 0x40, 0xC0, 0x0C, 0x61];
    let max_len = if thorough { 6 } else { 4 };
    for len in 0..=max_len {
        let total = alpha.len().pow(len as u32);
        for mut code in 0..total {
            let mut b = vec![0, 0, 0, 0, 0, 1, 0, 0, 0, 0, 0, 0];
            let mut has_ptr = false;
            for _ in 0..len { let x = alpha[code % alpha.len()]; has_ptr |= x == 0xC0; b.push(x); code /= alpha.len(); }
            let name_end = b.len();
            b.extend_from_slice(&[0, 1, 0, 1]);
            v.push(parse_case(&b, "pointer-graph"));
            if has_ptr {
                for t in [0usize, 1, 5] {
                    for end in [name_end, b.len()] {
                        for d in [-1i64, 0, 1] {
                            let l = end as i64 - t as i64 - 1 + d;
                            if l < 1 || l > 63 { continue; }
                            let mut m = b[..end].to_vec();
                            m[t] = l as u8;
                            v.push(parse_case(&m, "pointer-into-header"));
                        }
                    }
                }
            }
        }
    }
    // RDATA cut at every length with a consistent RDLENGTH: the record is the last of the message, its
    // RDLENGTH takes every value from 0 to the natural size and the message ends there
    for rep in 0..(if thorough { 6 } else { 1 }) {
        for kind_rep in 0..(N_KINDS + 10) {
            // IPSECKEY has four gateway shapes, SVCB/NSEC/OPT variable lists: a few more draws of those
            let kind = if kind_rep < N_KINDS { kind_rep } else { [34usize, 34, 34, 34, 34, 34, 27, 38, 25, 13][kind_rep - N_KINDS] };
            let mut p = Packet::new_reply(7);
            p.answers.push(g.rr_of(kind));
            let bytes = p.build_bytes_vec().unwrap();
            if bytes.len() > 600 && rep > 0 { continue; }
            if let Some(w) = crate::walker::walk(&bytes) {
                let e = &w.sections[0][0];
                let step = if e.rd_len > 300 { 5 } else { 1 };
                for k in (0..e.rd_len).step_by(step) {
                    let mut m = bytes[..e.rd_start + k].to_vec();
                    m[e.rd_start - 2..e.rd_start].copy_from_slice(&(k as u16).to_be_bytes());
                    v.push(parse_case(&m, "rdata-cut"));
                    // and followed by another record, so that the framing stays plausible
                    if k % 3 == 0 {
                        let mut m2 = m.clone();
                        m2[7] = 2;
                        m2.extend_from_slice(&[0, 0, 1, 0, 1, 0, 0, 0, 1, 0, 4, 1, 2, 3, 4]);
                        v.push(parse_case(&m2, "rdata-cut"));
                    }
                }
            }
        }
    }
    // pointer structures hidden where nothing parses them as a name first — the header id and the
    // opaque RDATA of an earlier record — and reached through a legal backward pointer
    let junk_alpha: [u8; 7] = [0xC0, 0x00, 0x01, 0x17, 0x18, 0x19, 0x61];
    let jl = if thorough { 5 } else { 4 };
    for len in 1..=jl {
        let total = junk_alpha.len().pow(len as u32);
        for mut code in 0..total {
            let mut junk = vec![];
            for _ in 0..len { junk.push(junk_alpha[code % junk_alpha.len()]); code /= junk_alpha.len(); }
            if !junk.contains(&0xC0) { continue; }
            // header, one NULL record with root owner whose RDATA (at offset 23) is the junk, then a
            // record whose owner is a pointer into that RDATA
            let mut b = vec![0u8, 0, 0x80, 0, 0, 0, 0, 2, 0, 0, 0, 0];
            b.extend_from_slice(&[0, 0, 10, 0, 1, 0, 0, 0, 0, 0, len as u8]);
            b.extend_from_slice(&junk);
            for target in [23u8, 24] {
                let mut m = b.clone();
                m.extend_from_slice(&[0xC0, target, 0, 1, 0, 1, 0, 0, 0, 0, 0, 4, 1, 2, 3, 4]);
                v.push(parse_case(&m, "hidden-pointer-structure"));
            }
            // the same junk as the header id (2 bytes), question name pointing at it
            if len == 2 {
                let mut m = vec![junk[0], junk[1], 0, 0, 0, 1, 0, 0, 0, 0, 0, 0, 0xC0, 0x00, 0, 1, 0, 1];
                v.push(parse_case(&m, "hidden-pointer-structure"));
                m[13] = 1;
                v.push(parse_case(&m, "hidden-pointer-structure"));
            }
        }
    }
    // long pointer chains and label-heavy messages: the worst case for time and heap
    for n in [200usize, 2000, if thorough { 30000 } else { 8000 }] {
        // each record's owner is a pointer to the previous record's owner, which starts with a label
        let mut b = vec![0u8, 1, 0x80, 0, 0, 0];
        let recs = (n / 14).min(65535);
        b.extend_from_slice(&(recs as u16).to_be_bytes());
        b.extend_from_slice(&[0, 0, 0, 0]);
        let mut prev: Option<usize> = None;
        for _ in 0..recs {
            let at = b.len();
            b.extend_from_slice(&[1, b'a']);
            match prev { None => b.push(0), Some(p) => { b.push(0xC0 | (p >> 8) as u8 & 0x3F); b.push(p as u8); } }
            b.extend_from_slice(&[0, 1, 0, 1, 0, 0, 0, 0, 0, 0]);
            prev = if at <= 0x3FFF { Some(at) } else { prev };
        }
        deep.push(b.clone());
        v.push(parse_case(&b, "pointer-chain"));
    }
    // the worst case for time: a pure pointer chain (inside the opaque RDATA of a first record) and as
    // many records as fit whose owner points at the end of the chain
    for total in [4000usize, 16000, 65535] {
        let chain_len = ((total / 4).min(16000 - 30)) / 2 * 2;
        let mut b = vec![0u8, 1, 0x80, 0, 0, 0, 0, 0, 0, 0, 0, 0];
        b.extend_from_slice(&[0, 0, 10, 0, 1, 0, 0, 0, 0]);
        b.extend_from_slice(&(chain_len as u16).to_be_bytes());
        let start = b.len();
        let mut prev = 4usize;
        while b.len() < start + chain_len { let at = b.len(); b.push(0xC0 | (prev >> 8) as u8); b.push(prev as u8); prev = at; }
        let mut n = 1u16;
        while b.len() + 12 <= total { b.push(0xC0 | (prev >> 8) as u8); b.push(prev as u8); b.extend_from_slice(&[0, 1, 0, 1, 0, 0, 0, 0, 0, 0]); n += 1; }
        b[6..8].copy_from_slice(&n.to_be_bytes());
        // the list-based Lean model would need hours on the big ones: implementation and budgets only
        deep.push(b.clone());
        let mut c = parse_case(&b, "pure-pointer-chain");
        if total > 4000 { c.proj = Proj::None; c.op = String::new(); }
        v.push(c);
    }
    // reference encodings by the independent encoder, with compression pointers in any name - also in the types whose
    // senders must not compress (RRSIG signer, SRV target, IPSECKEY gateway ...): the parser must cope with what other
    // implementations send; each encoding whole and cut at every length
    {
        use crate::refenc::{self, Compress};
        let mut g2 = Gen::new(seed ^ 0xC01E);
        let mut r2 = crate::rng::Rng::new(seed ^ 0x1EC0);
        refenc::COMPRESS_GATEWAY.store(true, std::sync::atomic::Ordering::Relaxed);
        for kind in 0..N_KINDS {
            // the types with a name followed by a variable-length tail get more draws, half of them with a tail of 0 .. 3 bytes
            let tail_after_name = matches!(KIND_NAMES[kind], "RRSIG" | "NSEC" | "SVCB" | "HTTPS" | "IPSECKEY");
            for rep in 0..(if thorough { 40 } else if tail_after_name { 24 } else { 4 }) {
                g2.share = 7;
                // two repetitions per type in which every name is built from one label and the encoder points whenever it can:
                // each embedded name is met as a pointer, whatever the other draws happen to share
                let forced = rep == 1 || rep == 3;
                let saved_pool = if forced { g2.share = 8; Some(std::mem::replace(&mut g2.pool, vec![b"same".to_vec()])) } else { None };
                let mut rd = g2.rdata(kind);
                if matches!(rd, rdata::RData::OPT(_)) { if let Some(pool) = saved_pool { g2.pool = pool; } continue; }
                if rep % 2 == 0 {
                    match &mut rd {
                        rdata::RData::RRSIG(x) => { x.signature = vec![0xABu8; rep / 2 % 4].into(); }
                        rdata::RData::NSEC(x) => { x.type_bit_maps.truncate(rep / 2 % 2); }
                        _ => {}
                    }
                }
                let first = ResourceRecord::new(g2.name(), CLASS::IN, 1, rdata::RData::NS(rdata::NS(g2.name())));
                let rr = ResourceRecord::new(g2.name(), CLASS::IN, 5, rd);
                if let Some(pool) = saved_pool { g2.pool = pool; }
                let ptxt = format!("P 7 32768 0 0 o0 0 2 {} {} 0 0", text::rr(&first), text::rr(&rr));
                let (bytes, _) = refenc::encode_packet(&ptxt, Compress::Random(&mut r2, if forced { 8 } else { 7 }), false, None);
                if bytes.len() > 700 && !forced || bytes.len() > 3000 { continue; }
                v.push(parse_case(&bytes, "reference-compressed"));
                if rep < 2 { for cut in 12..bytes.len() { v.push(parse_case(&bytes[..cut], "reference-compressed-cut")); } }
            }
        }
        refenc::COMPRESS_GATEWAY.store(false, std::sync::atomic::Ordering::Relaxed);
    }
    // a long run of one-byte labels as the first question's name, and many small questions that point at it: no
    // name may grow beyond 255 octets whether it is read in place or reached through a pointer (the limit is part of
    // what bounds the work per name)
    for (labels, extra) in [(130usize, 0usize), (300, 50), (2400, 500)] {
        let mut b = vec![0u8, 9, 0, 0];
        b.extend_from_slice(&((1 + extra) as u16).to_be_bytes());
        b.extend_from_slice(&[0, 0, 0, 0, 0, 0]);
        for k in 0..labels { b.push(1); b.push(b'a' + (k % 26) as u8); }
        b.push(0);
        b.extend_from_slice(&[0, 1, 0, 1]);
        for _ in 0..extra { b.extend_from_slice(&[0xC0, 12, 0, 1, 0, 1]); }
        let mut c = parse_case(&b, "label-run");
        if labels > 300 { c.proj = Proj::None; c.op = String::new(); }
        v.push(c);
        // the same run inside the opaque RDATA of a first answer, reached only through the backward pointers of the
        // owners of the records after it
        {
            let mut a = vec![0u8, 9, 0x80, 0, 0, 0];
            a.extend_from_slice(&((1 + extra) as u16).to_be_bytes());
            a.extend_from_slice(&[0, 0, 0, 0]);
            a.extend_from_slice(&[0, 0, 10, 0, 1, 0, 0, 0, 0]);
            a.extend_from_slice(&((2 * labels + 1) as u16).to_be_bytes());
            let run = a.len();
            for k in 0..labels { a.push(1); a.push(b'a' + (k % 26) as u8); }
            a.push(0);
            for _ in 0..extra { a.push(0xC0 | (run >> 8) as u8); a.push(run as u8); a.extend_from_slice(&[0, 1, 0, 1, 0, 0, 0, 0, 0, 0]); }
            let mut c2 = parse_case(&a, "label-run");
            if labels > 300 { c2.proj = Proj::None; c2.op = String::new(); }
            v.push(c2);
        }
    }
    // many small records of one kind at growing offsets: a per-record cost that depends on the record's
    // position in the message (a buffer sized from the message prefix, a rescan from the start) makes
    // heap or time quadratic although every single record is cheap
    for kind in 0..crate::gen::N_KINDS {
        // a small record of this kind (a few draws), so that many of them fit
        let mut found = None;
        for _ in 0..12 {
            let r = g.rr_of(kind);
            if matches!(r.rdata, rdata::RData::OPT(_)) { break; }
            let mut one = Packet::new_reply(0);
            one.answers.push(r.clone());
            if let Ok(b) = one.build_bytes_vec() { if b.len() - 12 <= 48 { found = Some((r, b.len() - 12)); break; } }
        }
        let (r, per) = match found { Some(x) => x, None => continue };
        let target = if thorough { 64000 } else { 22000 };
        let mut p = Packet::new_reply(kind as u16);
        p.answers = vec![r; (target / per.max(1)).min(65535)];
        if let Ok(b) = p.build_bytes_vec() {
            if b.len() <= 65535 {
                let mut c = parse_case(&b, "many-records");
                // a valid uncompressed message needs far less than the worst case the general budget allows for
                // (pointers that expand to 127 labels): 96 bytes of heap per input byte are ample (measured: 16-20)
                {
                    let bb = b.clone();
                    let (_, heap_parse) = metered(|| { let _ = std::panic::catch_unwind(move || { let _ = Packet::parse(&bb); }); });
                    if heap_parse > 96 * b.len() + 16 * 1024 { c = c.fail("parse-heap", format!("{} bytes of heap for {} bytes of input holding {} small records (budget 96 per byte)", heap_parse, b.len(), p.answers.len())); }
                }
                // the list-based model is slow on tens of kilobytes: compare every fourth kind with it, all with the budgets
                if kind % 4 != 0 { c.proj = Proj::None; c.op = String::new(); }
                v.push(c);
            }
        }
    }
    // random bytes and random mutations of bigger packets
    let n = if thorough { 60_000 } else { 3_000 };
    for i in 0..n {
        if i % 3 == 0 {
            let len = g.rng.range(12, 80) as usize;
            let mut b = g.rng.bytes(len);
            b[2] &= 0xBF; b[3] &= 0xBF; // keep Z clear so that the body is reached
            for k in [4usize, 6, 8, 10] { b[k] = 0; b[k + 1] &= 3; }
            v.push(parse_case(&b, "random"));
        } else {
            let p = g.packet(3);
            let mut b = if i % 2 == 0 { p.build_bytes_vec() } else { p.build_bytes_vec_compressed() }.unwrap();
            if b.len() > 3000 { continue; }
            for _ in 0..g.rng.range(1, 3) {
                let k = g.rng.below(b.len() as u64) as usize;
                match g.rng.below(4) {
                    0 => b[k] = g.rng.next() as u8,
                    1 => b[k] = b[k].wrapping_add(1),
                    2 => { b.truncate(k.max(1)); }
                    _ => { let x = g.rng.next() as u8; b.insert(k, x); }
                }
            }
            v.push(parse_case(&b, "mutated"));
        }
    }
    // fields that mean different things to different record types: the CLASS word of an OPT record is a payload size
    // (every 16-bit value), records of any type may come with RDLENGTH 0, in any class word, in any section
    {
        let mut k = 0u32;
        for size in 0..=65535u16 {
            // without options and with one
            for with_option in [false, true] {
                if with_option && size % 16 != 0 && !(250..260).contains(&size) { continue; }
                let mut b = vec![0u8, 1, 0, 0, 0, 0, 0, 0, 0, 0, 0, 1, 0, 0, 41];
                b.extend_from_slice(&size.to_be_bytes());
                b.extend_from_slice(&[0, 0, 0, 0]);
                if with_option { b.extend_from_slice(&[0, 6, 0, 10, 0, 2, 7, 7]); } else { b.extend_from_slice(&[0, 0]); }
                let mut c = parse_case(&b, "opt-payload-size");
                k += 1;
                if size > 600 && k % 11 != 0 { c.proj = Proj::None; c.op = String::new(); }
                v.push(c);
            }
        }
        let types: Vec<u16> = crate::gen::TYPE_CODES.iter().cloned().chain([0u16, 10, 41, 99, 250, 251, 252, 253, 254, 255, 256, 32768, 65535]).collect();
        for ty in &types {
            for class in [0u16, 1, 2, 3, 4, 5, 253, 254, 255, 256, 0x8001, 0x80FE, 0x80FF, 0xFFFF] {
                for section in 1..4usize {
                    let mut b = vec![0u8, 1, 0x80, 0, 0, 0, 0, 0, 0, 0, 0, 0, 1, b'e', 0];
                    b[5 + 2 * section] = 1;
                    b.extend_from_slice(&ty.to_be_bytes());
                    b.extend_from_slice(&class.to_be_bytes());
                    b.extend_from_slice(&[0, 0, 0, 1, 0, 0]);
                    v.push(parse_case(&b, "empty-rdata-grid"));
                }
            }
        }
    }
    for m in crate::props::pk::ipseckey_cut_messages(&[]).into_iter().chain(crate::props::pk::ipseckey_cut_messages(&[0u8; 20])) { v.push(parse_case(&m, "ipseckey-cut")); }
    // stack: the work per message is bounded in stack depth too. A parser that descends once per compression pointer
    // or per label needs a frame for each of up to ~8000 hops; on a service thread (tokio workers, spawned threads with
    // a small stack) that is a crash of the whole process, which no catch_unwind sees. The deep messages above and a
    // sample of ordinary ones are parsed in a child process on a thread of STACK_PROBE_BYTES.
    for _ in 0..40 { if let Ok(b) = g.packet(4).build_bytes_vec_compressed() { deep.push(b); } }
    v.extend(stack_probe(&deep));
    v
}


/// the stack a parse may use: 64 KiB - about four times what the deepest legal message needs today in this (dev)
/// profile, and well under what a recursive descent needs for a chain of a few thousand pointers
pub const STACK_PROBE_BYTES: usize = 64 * 1024;

/// child side: `vharness --stack-probe <file> <bytes>`: one message per line in hex, each parsed on a thread with the
/// given stack; the index is printed before each parse so that the parent knows which message killed the process
pub fn stack_probe_child(file: &str, bytes: usize) {
    let reemit = std::env::var("VHARNESS_STACK_REEMIT").ok().as_deref() == Some("1");
    use std::io::Write;
    let text = std::fs::read_to_string(file).unwrap_or_default();
    for (i, line) in text.lines().enumerate() {
        let b = match text::unhex(line.trim()) { Some(b) => b, None => continue };
        println!("{}", i);
        let _ = std::io::stdout().flush();
        let h = std::thread::Builder::new().stack_size(bytes).spawn(move || { let _ = std::panic::catch_unwind(|| {
            if let Ok(p) = Packet::parse(&b) {
                // a forwarder's path: what was parsed is written again, by both writers, on the same small stack
                if reemit { let _ = p.build_bytes_vec().map(|x| x.len()); let _ = p.build_bytes_vec_compressed().map(|x| x.len()); let mut small = [0u8; 64]; let _ = p.write_to(&mut &mut small[..]); }
            }
        }); });
        if let Ok(h) = h { let _ = h.join(); }
    }
    println!("done");
}

fn stack_probe(messages: &[Vec<u8>]) -> Vec<Case> { stack_probe_with(messages, false) }

/// `reemit`: the child also serialises every parsed message with both writers on the small stack (C11's path)
pub fn stack_probe_with(messages: &[Vec<u8>], reemit: bool) -> Vec<Case> {
    let dir = std::env::temp_dir().join(format!("vharness-stack-{}-{}", std::process::id(), reemit as u8));
    let _ = std::fs::create_dir_all(&dir);
    let file = dir.join("messages.hex");
    let body: String = messages.iter().map(|m| format!("{}\n", text::hex(m))).collect();
    let mut out = vec![];
    let mut c = Case::oracle_only().tag("stack-probe");
    if std::fs::write(&file, body).is_ok() {
        if let Ok(exe) = std::env::current_exe() {
            match std::process::Command::new(exe).arg("--stack-probe").arg(&file).arg(STACK_PROBE_BYTES.to_string()).env("VHARNESS_STACK_REEMIT", if reemit { "1" } else { "0" }).output() {
                Ok(o) => {
                    let text_out = String::from_utf8_lossy(&o.stdout).to_string();
                    if !text_out.trim_end().ends_with("done") {
                        let last = text_out.lines().filter_map(|l| l.trim().parse::<usize>().ok()).last().unwrap_or(0);
                        let m = &messages[last.min(messages.len() - 1)];
                        c = Case::new(format!("parse {}", text::hex(m)), "panic".to_string()).tag("stack-probe");
                        c.proj = Proj::None;
                        c = c.fail(if reemit { "reserialise-stack" } else { "parse-stack" }, format!("{} this {}-byte message on a thread with a {} KiB stack kills the process ({})", if reemit { "parsing and re-serialising" } else { "parsing" }, m.len(), STACK_PROBE_BYTES / 1024, o.status));
                    }
                }
                Err(e) => { eprintln!("stack probe not run: {}", e); }
            }
        }
    }
    let _ = std::fs::remove_dir_all(&dir);
    out.push(c);
    out
}
