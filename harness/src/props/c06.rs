//! C06 — name decoding against the RFC 1035 §4.1.4 reference decoder.
use crate::core::*;
use crate::rng::Rng;
use crate::text;

fn impl_name(buf: &[u8], pos: usize) -> String {
    let b = buf.to_vec();
    watch(&format!("name.parse {} {}", text::hex(buf), pos));
    guard(move || match simple_dns::verif::parse_name_at(&b, pos) {
        Ok((n, p)) => format!("ok {} {}", text::name(&n), p),
        Err(_) => "err".to_string(),
    })
}

/// the implementation's answer against the reference decoder's
fn check(impl_out: &str, spec_out: &str) -> Option<(String, String)> {
    match class_of(impl_out) {
        "panic" => Some(("name-panic".into(), "Name::parse panicked".into())),
        "ok" => {
            if impl_out != spec_out {
                return Some(("name-differs-from-rfc".into(), format!("library: {}", impl_out)));
            }
            // label and name bounds
            let toks: Vec<&str> = impl_out.split(' ').collect();
            let k: usize = toks[2].parse().unwrap();
            let mut wire = 1;
            for l in &toks[3..3 + k] {
                let n = (l.len() - 1) / 2;
                if n < 1 || n > 63 {
                    return Some(("label-bounds".into(), format!("label of {} bytes", n)));
                }
                wire += n + 1;
            }
            if wire > 255 {
                return Some(("name-too-long".into(), format!("accepted a name of {} bytes", wire)));
            }
            None
        }
        _ => None,
    }
}

fn push_case(v: &mut Vec<Case>, buf: &[u8], pos: usize, tag: &str) {
    let out = impl_name(buf, pos);
    let h = text::hex(buf);
    let trivial = class_of(&out) == "err" && buf.len() <= pos;
    let mut c = Case::new(format!("name.parse {} {}", h, pos), out.clone())
        .tag(tag)
        .trivial(trivial)
        .spec(format!("spec.name {} {}", h, pos), check);
    // decoded *exactly* as RFC 1035 prescribes: a name the independent decoder reads through pointers
    // to prior positions only, with labels of 1..63 bytes and at most 255 bytes expanded, is not refused
    if class_of(&out) == "err" {
        if let Some((labels, ptrs)) = crate::walker::decode_name(buf, pos) {
            let wire: usize = labels.iter().map(|l| l.len() + 1).sum::<usize>() + 1;
            if ptrs.iter().all(|(p, t)| t < p) && wire <= 255 {
                c = c.fail("rejects-decodable-name", format!("the library refuses a name of {} label(s) reached through {} backward pointer(s)", labels.len(), ptrs.len()));
            }
        }
    }
    v.push(c);
}

/// a message-like buffer with label runs, pointer chains, pointers into anything
fn random_buffer(r: &mut Rng) -> (Vec<u8>, Vec<usize>) {
    let n0 = r.range(0, 14) as usize;
    let mut b: Vec<u8> = r.bytes(n0);
    let mut starts = vec![];
    for _ in 0..r.range(1, 8) {
        starts.push(b.len());
        for _ in 0..r.range(0, 6) {
            let len = match r.below(12) { 0 => 63, 1 => 64, 2 => 62, _ => r.range(1, 9) } as usize;
            b.push(len as u8);
            b.extend(r.bytes(len));
            if r.chance(1, 10) { starts.push(b.len()); }
        }
        match r.below(8) {
            0 | 1 | 2 => b.push(0),
            3 | 4 | 5 => {
                let target = match r.below(6) {
                    0 => b.len(),                       // self
                    1 => b.len() + r.range(1, 5) as usize, // forward
                    2 => r.below(0x4000) as usize,
                    _ => if starts.is_empty() { 0 } else { *r.pick(&starts) },
                };
                b.push(0xC0 | ((target >> 8) as u8 & 0x3F));
                b.push(target as u8);
            }
            6 => b.push(*r.pick(&[0x40u8, 0x80, 0xBF, 0x7F])),
            _ => {}
        }
    }
    (b, starts)
}

/// names pressing on the 255-byte limit, reached through a pointer chain
fn long_name_buffer(r: &mut Rng) -> (Vec<u8>, Vec<usize>) {
    let mut b = vec![];
    let mut starts = vec![];
    let target_total = r.range(250, 260) as usize; // wire length of the expansion
    // tail: labels then zero
    let mut remaining = target_total - 1;
    let mut chunks: Vec<usize> = vec![];
    while remaining > 0 {
        let l = (remaining - 1).min(r.range(1, 63) as usize);
        if l == 0 { break; }
        chunks.push(l);
        remaining -= l + 1;
    }
    // lay the labels out in 2-3 segments linked by backward pointers
    let nseg = r.range(1, 3) as usize;
    let per = (chunks.len() + nseg - 1) / nseg.max(1);
    let mut segs: Vec<Vec<usize>> = chunks.chunks(per.max(1)).map(|c| c.to_vec()).collect();
    segs.reverse();
    let mut prev: Option<usize> = None;
    for seg in segs {
        let at = b.len();
        starts.push(at);
        for l in seg {
            b.push(l as u8);
            b.extend(r.bytes(l));
        }
        match prev {
            None => b.push(0),
            Some(p) => { b.push(0xC0 | (p >> 8) as u8); b.push(p as u8); }
        }
        prev = Some(at);
    }
    (b, starts)
}

pub fn cases(tier: &str, seed: u64) -> Vec<Case> {
    let mut v = Vec::new();
    // bounded-exhaustive over a reduced alphabet, every start offset
    let alpha: [u8; 10] = [0x00, 0x01, 0x02, 0x03, 0x3F, 0x40, 0x80, 0xC0, 0xC1, 0x61];
    let max_len = if tier == "thorough" { 6 } else { 5 };
    for len in 0..=max_len {
        let total = alpha.len().pow(len as u32);
        for mut code in 0..total {
            let mut buf = Vec::with_capacity(len);
            for _ in 0..len {
                buf.push(alpha[code % alpha.len()]);
                code /= alpha.len();
            }
            for pos in 0..=len {
                if len == max_len && pos > 2 { break; } // the tails were covered by shorter buffers
                push_case(&mut v, &buf, pos, "exhaustive");
            }
        }
    }
    // overlapping structures: a label reached through a pointer ends exactly on the pointer's first or
    // second byte, so that the read cursor passes over the pointer itself and meets the caller's cursor
    for p in 1..8usize {
        for t in 0..p {
            for end_at in [p, p + 1, p + 2] {
                if end_at < t + 1 { continue; }
                let l = end_at - (t + 1);
                if l == 0 || l > 63 { continue; }
                for tail in [vec![0u8], vec![1, b'a', 0], vec![0xC0, 0], vec![2, b'b', b'c', 0]] {
                    let mut buf = vec![0x61u8; p];
                    buf[t] = l as u8;
                    buf.push(0xC0);
                    buf.push(t as u8);
                    buf.extend_from_slice(&tail);
                    for pos in [p, t, 0] { push_case(&mut v, &buf, pos, "overlap"); }
                }
            }
        }
    }
    // names of 120 .. 128 one-octet labels (127 of them make exactly 255 octets: the most labels a name can have), in
    // place, and with the last k labels reached through a pointer
    for labels in 120..=128usize {
        for split in [0usize, 1, 60, 126] {
            if split >= labels { continue; }
            // tail: the last `split` labels + root at offset 0 .. ; head: the first labels - split labels + pointer to 0
            let mut buf: Vec<u8> = vec![];
            for i in (labels - split)..labels { buf.push(1); buf.push(b'a' + (i % 26) as u8); }
            buf.push(0);
            let start = buf.len();
            for i in 0..(labels - split) { buf.push(1); buf.push(b'a' + (i % 26) as u8); }
            if split == 0 { /* the tail is just the root octet at 0 */ }
            buf.push(0xC0); buf.push(0);
            push_case(&mut v, &buf, start, "many-labels");
        }
        let mut flat: Vec<u8> = vec![];
        for i in 0..labels { flat.push(1); flat.push(b'a' + (i % 26) as u8); }
        flat.push(0);
        push_case(&mut v, &flat, 0, "many-labels");
    }
    // names inside RDATA (the property is observed at Packet::parse: question names, owner names, names
    // inside RDATA): every name-bearing record type, reference-encoded with pointers in any name -
    // including the types whose senders must not compress - must decode to the names that were encoded
    {
        use crate::gen::{Gen, KIND_NAMES, N_KINDS};
        use crate::refenc::{self, Compress};
        use simple_dns::{Packet, ResourceRecord, CLASS, rdata::{RData, NS}};
        let mut g = Gen::new(seed ^ 0xC06);
        let mut r2 = Rng::new(seed ^ 0x6C0);
        refenc::COMPRESS_GATEWAY.store(true, std::sync::atomic::Ordering::Relaxed);
        let reps = if tier == "thorough" { 300 } else { 12 };
        for kind in 0..N_KINDS {
            // IPSECKEY has four gateway shapes, only one of which carries a name
            let n_reps = if KIND_NAMES[kind] == "IPSECKEY" { reps * 8 } else { reps };
            for rep in 0..n_reps {
                g.share = 7;
                // two repetitions per type with names built from one and the same label, and an encoder that points whenever
                // it can: every name after the first owner ends in a pointer, in every type (also those whose senders must
                // not compress) - independently of what the random draws of the other repetitions happen to share
                let forced = rep == 1 || rep == 4;
                let saved_pool = if forced { g.share = 8; Some(std::mem::replace(&mut g.pool, vec![b"same".to_vec()])) } else { None };
                // the last two repetitions: every name inside the RDATA is the root name, once in place (a single
                // zero octet: the shortest name there is) and once with whatever compression the encoder picks
                g.root_only = rep + 2 >= n_reps;
                let rd = g.rdata(kind);
                g.root_only = false;
                if matches!(rd, RData::OPT(_)) { continue; }
                let first = ResourceRecord::new(g.name(), CLASS::IN, 1, RData::NS(NS(g.name())));
                let rr = ResourceRecord::new(g.name(), CLASS::IN, 5, rd);
                if let Some(pool) = saved_pool { g.pool = pool; }
                // two times in three the message also asks a question: a fresh name, or the first owner's name in another
                // spelling of its letters (names are carried as they were sent; only comparisons ignore case)
                let qtxt = match if rep % 7 == 5 { 3 } else { rep % 3 } {
                    // two questions, the second a name under the first (a browse query: the service type and an instance of
                    // it): the encoder may end it in a pointer, and the second question's type and class follow that
                    // pointer's two octets, not the expanded name
                    3 => {
                        let base = g.name();
                        let mut labels: Vec<Vec<u8>> = vec![b"inst".to_vec()];
                        labels.extend(base.get_labels().iter().map(|l| l.as_bytes().to_vec()));
                        let wire_len: usize = labels.iter().map(|l| l.len() + 1).sum::<usize>() + 1;
                        if wire_len > 255 { "0".to_string() } else { format!("2 {} 12 1 0 {} 33 1 1", text::name(&base), text::name(&crate::gen::mk_name(&labels))) }
                    }
                    0 => "0".to_string(),
                    1 => format!("1 {} 255 1 {}", text::name(&g.name()), rep % 2),
                    _ => {
                        let labels: Vec<Vec<u8>> = first.name.get_labels().iter().map(|l| l.as_bytes().iter().map(|b| if b.is_ascii_alphabetic() && r2.chance(1, 2) { b ^ 0x20 } else { *b }).collect()).collect();
                        format!("1 {} 12 1 0", text::name(&crate::gen::mk_name(&labels)))
                    }
                };
                let ptxt = format!("P 7 32768 0 0 o0 {} 2 {} {} 0 0", qtxt, text::rr(&first), text::rr(&rr));
                let (bytes, _) = if forced { refenc::encode_packet(&ptxt, Compress::Random(&mut r2, 8), false, None) } else if rep % 3 == 2 || rep + 2 == n_reps { refenc::encode_packet(&ptxt, Compress::Never, false, None) } else { refenc::encode_packet(&ptxt, Compress::Random(&mut r2, 7), false, None) };
                let bb = bytes.clone();
                watch(&format!("parse {}", text::hex(&bytes)));
                let out = guard(move || match Packet::parse(&bb) { Ok(p) => format!("ok {}", text::packet(&p)), Err(_) => "err".to_string() });
                let mut c = Case::new(format!("parse {}", text::hex(&bytes)), out.clone()).tag("rdata-names").tag(&format!("type:{}", KIND_NAMES[kind]));
                if out != format!("ok {}", ptxt) { c = c.fail("rdata-name-misread", format!("{}: a name inside the record (or its owner), encoded with RFC 1035 pointers, does not decode to the encoded labels", KIND_NAMES[kind])); }
                v.push(c);
            }
        }
        refenc::COMPRESS_GATEWAY.store(false, std::sync::atomic::Ordering::Relaxed);
    }
    // depth of indirection: names nested "new label + pointer to the previous name" (what a compressing
    // writer emits for a.b.c.d..., b.c.d..., c.d...) and pure pointer-to-pointer chains, 1 to 40 hops
    for depth in (1..=40usize).chain([41, 63, 64, 65, 100, 125, 126, 127, 128, 200]) {
        let mut nested = vec![0u8; 3];            // offset 3: the innermost name, one label and the root
        nested.extend_from_slice(&[1, b'z', 0]);
        let mut prev = 3usize;
        // 126 hops (a name of 127 one-octet labels, 255 octets) are the most a legal name can need; from 127 on the name is
        // too long, which is the decoder's business to say, not the hop count's
        for k in 0..depth {
            let here = nested.len();
            nested.extend_from_slice(&[1, b'a' + (k % 26) as u8, 0xC0 | (prev >> 8) as u8, prev as u8]);
            prev = here;
        }
        push_case(&mut v, &nested, prev, "nested-depth");
        // (pointer-to-pointer hops add no label: a chain of any length below the 14-bit offset range is a legal way to
        // spell a short name - hundreds and thousands of hops further down)
        let mut chain = vec![2u8, b'o', b'k', 0];  // offset 0: a name; then pointers to pointers
        let mut at = 0usize;
        for _ in 0..depth {
            let here = chain.len();
            chain.extend_from_slice(&[0xC0 | (at >> 8) as u8, at as u8]);
            at = here;
        }
        push_case(&mut v, &chain, at, "chain-depth");
    }
    // (up to the longest chain the 14-bit offset range can hold: the last pointer sits at offset 16382)
    for depth in [254usize, 255, 256, 257, 300, 511, 512, 1000, 3000, 4095, 4096, 4097, 5000, 8000, 8189] {
        let mut chain = vec![2u8, b'o', b'k', 0];
        let mut at = 0usize;
        for _ in 0..depth {
            let here = chain.len();
            chain.extend_from_slice(&[0xC0 | (at >> 8) as u8, at as u8]);
            at = here;
        }
        push_case(&mut v, &chain, at, "chain-depth");
    }
    let mut r = Rng::new(seed);
    let n = if tier == "thorough" { 400_000 } else { 20_000 };
    for i in 0..n {
        let (b, starts) = if i % 5 == 0 { long_name_buffer(&mut r) } else { random_buffer(&mut r) };
        for s in starts.iter().take(4) {
            push_case(&mut v, &b, *s, if i % 5 == 0 { "long" } else { "random" });
        }
        let p = r.below(b.len() as u64 + 2) as usize;
        push_case(&mut v, &b, p, "random-offset");
    }
    // at the message level: an encoding the RFC decoder rejects, as the question name, as the owner name of a record in
    // each section, and as a name inside RDATA - the message is an error wherever the name stands (no section is "only hints")
    {
        use simple_dns::Packet;
        let long_label = { let mut b = vec![64u8]; b.extend_from_slice(&[b'x'; 64]); b.push(0); b };
        let too_long = { let mut b = vec![]; for _ in 0..128 { b.extend_from_slice(&[1, b'a']); } b.push(0); b };
        // (name bytes, what is wrong); `P` marks where the name's own offset goes for self / forward pointers
        let bad: Vec<(Vec<u8>, &str)> = vec![
            (vec![0x41, b'a', 0], "label-type-01"), (vec![0x81, b'a', 0], "label-type-10"), (long_label, "label-64"), (too_long, "name-257"),
            (vec![0xC0, 0xFE], "pointer-self"), (vec![0xFF, 0xFF], "pointer-outside"), (vec![1, b'a', 0xC0, 0xFD], "pointer-cycle"),
        ];
        // under every kind of header: a query, a response, each flag (TC among them - a message cut short by its sender is
        // still a message whose names are decoded or refused like any other), other opcodes and response codes
        let headers: [[u8; 2]; 12] = [[0x80, 0], [0, 0], [0x82, 0], [0x02, 0], [0x84, 0], [0x81, 0x80], [0x80, 0x30], [0xA0, 0], [0xA8, 0], [0x80, 3], [0x82, 0x0F], [0x87, 0xBF]];
        for (name, what) in &bad {
            for place in 0..5usize { for hw in &headers {
                // header counts: one entry in the place's section; a valid first question when the bad name is elsewhere
                let mut m = vec![0u8, 9, hw[0], hw[1], 0, if place == 0 { 1 } else { 0 }, 0, if place == 1 || place == 4 { 1 } else { 0 }, 0, if place == 2 { 1 } else { 0 }, 0, if place == 3 { 1 } else { 0 }];
                let at = m.len() + if place == 4 { 3 + 10 } else { 0 };
                let fix = |n: &Vec<u8>, at: usize| -> Vec<u8> { let mut n = n.clone(); let k = n.len(); if k >= 2 && n[k - 2] == 0xC0 { match n[k - 1] { 0xFE => { n[k - 2] = 0xC0 | (at >> 8) as u8; n[k - 1] = at as u8; } 0xFD => { n[k - 2] = 0xC0 | (at >> 8) as u8; n[k - 1] = at as u8; } _ => {} } } n };
                let nb = fix(name, at);
                match place {
                    0 => { m.extend_from_slice(&nb); m.extend_from_slice(&[0, 1, 0, 1]); }
                    1 | 2 | 3 => { m.extend_from_slice(&nb); m.extend_from_slice(&[0, 1, 0, 1, 0, 0, 0, 5, 0, 4, 10, 0, 0, 1]); }
                    _ => { m.extend_from_slice(&[1, b'o', 0, 0, 5, 0, 1, 0, 0, 0, 5]); m.extend_from_slice(&(nb.len() as u16).to_be_bytes()); m.extend_from_slice(&nb); }
                }
                // more bytes after it, so that nothing fails for lack of data alone
                m.extend_from_slice(&[0u8; 6]);
                let mm = m.clone();
                watch(&format!("parse {}", text::hex(&m)));
                let out = guard(move || match Packet::parse(&mm) { Ok(p) => format!("ok {}", text::packet(&p)), Err(_) => "err".to_string() });
                let mut c = Case::new(format!("parse {}", text::hex(&m)), out.clone()).tag("message-bad-name").tag(&format!("place:{}", ["question", "answer", "authority", "additional", "rdata"][place]));
                if class_of(&out) != "err" { c = c.fail("bad-name-accepted", format!("{} as the {} name of a message (header word {:02x}{:02x}) is not an error: {}", what, ["question", "answer owner", "authority owner", "additional owner", "CNAME target"][place], hw[0], hw[1], &out[..out.len().min(120)])); }
                v.push(c);
            } }
        }
        // ... and the same names behind one good record of the section, so that "keep what arrived whole" shows
        for (name, what) in &bad {
            for hw in &headers {
                let mut m = vec![0u8, 9, hw[0], hw[1], 0, 0, 0, 2, 0, 0, 0, 0];
                m.extend_from_slice(&[1, b'o', 0, 0, 1, 0, 1, 0, 0, 0, 5, 0, 4, 10, 0, 0, 1]);
                let at = m.len();
                let mut nb = name.clone();
                let k = nb.len();
                if k >= 2 && nb[k - 2] == 0xC0 && (nb[k - 1] == 0xFE || nb[k - 1] == 0xFD) { nb[k - 2] = 0xC0 | (at >> 8) as u8; nb[k - 1] = at as u8; }
                m.extend_from_slice(&nb);
                m.extend_from_slice(&[0, 1, 0, 1, 0, 0, 0, 5, 0, 4, 10, 0, 0, 2]);
                m.extend_from_slice(&[0u8; 6]);
                let mm = m.clone();
                let out = guard(move || match Packet::parse(&mm) { Ok(p) => format!("ok {}", text::packet(&p)), Err(_) => "err".to_string() });
                let mut c = Case::new(format!("parse {}", text::hex(&m)), out.clone()).tag("message-bad-name").tag("place:second-answer");
                if class_of(&out) != "err" { c = c.fail("bad-name-accepted", format!("{} as the owner of the second answer (header word {:02x}{:02x}) is not an error: {}", what, hw[0], hw[1], &out[..out.len().min(120)])); }
                v.push(c);
            }
        }
    }
    v
}
