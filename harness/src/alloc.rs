//! Counting global allocator: current and peak heap bytes of the whole process.
use std::alloc::{GlobalAlloc, Layout, System};
use std::sync::atomic::{AtomicUsize, Ordering};

pub struct Counting;
pub static CUR: AtomicUsize = AtomicUsize::new(0);
pub static PEAK: AtomicUsize = AtomicUsize::new(0);

unsafe impl GlobalAlloc for Counting {
    unsafe fn alloc(&self, l: Layout) -> *mut u8 {
        let p = System.alloc(l);
        if !p.is_null() {
            let c = CUR.fetch_add(l.size(), Ordering::Relaxed) + l.size();
            PEAK.fetch_max(c, Ordering::Relaxed);
        }
        p
    }
    unsafe fn dealloc(&self, p: *mut u8, l: Layout) {
        CUR.fetch_sub(l.size(), Ordering::Relaxed);
        System.dealloc(p, l)
    }
    unsafe fn realloc(&self, p: *mut u8, l: Layout, new: usize) -> *mut u8 {
        let q = System.realloc(p, l, new);
        if !q.is_null() {
            if new >= l.size() {
                let c = CUR.fetch_add(new - l.size(), Ordering::Relaxed) + (new - l.size());
                PEAK.fetch_max(c, Ordering::Relaxed);
            } else {
                CUR.fetch_sub(l.size() - new, Ordering::Relaxed);
            }
        }
        q
    }
}

/// run `f` (single-threaded phase) and return its result with the extra heap it peaked at
pub fn metered<T>(f: impl FnOnce() -> T) -> (T, usize) {
    let base = CUR.load(Ordering::Relaxed);
    PEAK.store(base, Ordering::Relaxed);
    let r = f();
    let peak = PEAK.load(Ordering::Relaxed);
    (r, peak.saturating_sub(base))
}
