//! Cases, the driver round trip, comparison, the report written for `check`.
use crate::json::J;
use std::collections::{BTreeMap, HashSet};
use std::io::Write;
use std::process::{Command, Stdio};

#[derive(Clone, Copy, PartialEq, Eq, Debug)]
pub enum Proj {
    /// model and implementation lines must be equal
    Exact,
    /// only the outcome class (`ok` / `err` / `panic`) is compared
    Class,
    /// only "panicked or returned" is compared
    NoPanic,
    /// nothing is compared with the model (oracle-only case)
    None,
}

pub struct Case {
    /// request line for the driver (empty when `proj == None`)
    pub op: String,
    /// canonical output of the implementation
    pub impl_out: String,
    /// how model and implementation are compared
    pub proj: Proj,
    /// failure of the property oracle evaluated on the implementation: (stable key, message)
    pub oracle_fail: Option<(String, String)>,
    /// a failure that is reported only when no other check of the case fails: used for the checks that correspond to a
    /// recorded known finding, so that the finding never hides a second, different failure of the same case
    pub deferred_fail: Option<(String, String)>,
    /// counted in `distinct_nontrivial` (by the property's own rule)
    pub nontrivial: bool,
    /// counters for the measured input distribution
    pub tags: Vec<String>,
    /// request evaluated by the independent specification in the driver, and the check of the
    /// implementation's output against the specification's answer
    pub spec: Option<(String, fn(&str, &str) -> Option<(String, String)>)>,
    /// a second model request bounding an uncertainty of the run (measured time intervals): the case
    /// is compared only when both model answers coincide, otherwise it is counted inconclusive
    pub alt: Option<String>,
}

impl Case {
    pub fn new(op: String, impl_out: String) -> Self {
        Case { op, impl_out, proj: Proj::Exact, oracle_fail: None, deferred_fail: None, nontrivial: true, tags: vec![], spec: None, alt: None }
    }
    pub fn oracle_only() -> Self {
        Case { op: String::new(), impl_out: String::new(), proj: Proj::None, oracle_fail: None, deferred_fail: None, nontrivial: true, tags: vec![], spec: None, alt: None }
    }
    pub fn tag(mut self, t: &str) -> Self {
        self.tags.push(t.to_string());
        self
    }
    pub fn proj(mut self, p: Proj) -> Self {
        self.proj = p;
        self
    }
    pub fn trivial(mut self, t: bool) -> Self {
        self.nontrivial = !t;
        self
    }
    pub fn spec(mut self, op: String, check: fn(&str, &str) -> Option<(String, String)>) -> Self {
        self.spec = Some((op, check));
        self
    }
    pub fn fail_if_nothing_else(mut self, key: &str, msg: String) -> Self {
        if self.deferred_fail.is_none() {
            self.deferred_fail = Some((key.to_string(), msg));
        }
        self
    }
    pub fn fail(mut self, key: &str, msg: String) -> Self {
        if self.oracle_fail.is_none() {
            self.oracle_fail = Some((key.to_string(), msg));
        }
        self
    }
}

/// the implementation call in progress (label, start), watched for hangs by `main`
pub static CURRENT: std::sync::Mutex<Option<(String, std::time::Instant)>> = std::sync::Mutex::new(None);

/// announce the input about to be given to the implementation
pub fn watch(label: &str) {
    *CURRENT.lock().unwrap() = Some((label.to_string(), std::time::Instant::now()));
}
pub fn watch_clear() {
    *CURRENT.lock().unwrap() = None;
}
/// how long the call in progress may take before the watchdog calls it a hang (seconds): 20 for one call into the
/// library; the live phases (several services over loopback multicast, each with its own time-outs and its own
/// verdict on a service that stops answering) announce themselves with a budget of minutes
pub static BUDGET_SECS: std::sync::atomic::AtomicU64 = std::sync::atomic::AtomicU64::new(20);
/// live phases running now (they may overlap with each other and with watched calls on other threads)
pub static LIVE_PHASES: std::sync::atomic::AtomicU64 = std::sync::atomic::AtomicU64::new(0);
pub struct LivePhase;
pub fn live_phase() -> LivePhase {
    LIVE_PHASES.fetch_add(1, std::sync::atomic::Ordering::SeqCst);
    BUDGET_SECS.store(600, std::sync::atomic::Ordering::SeqCst);
    LivePhase
}
impl Drop for LivePhase {
    fn drop(&mut self) {
        if LIVE_PHASES.fetch_sub(1, std::sync::atomic::Ordering::SeqCst) == 1 {
            BUDGET_SECS.store(20, std::sync::atomic::Ordering::SeqCst);
            // the call announced before the live phase began has long returned: its clock starts again
            if let Some(cur) = CURRENT.lock().unwrap().as_mut() { cur.1 = std::time::Instant::now(); }
        }
    }
}

/// run `f`, mapping a panic to the string "panic"
pub fn guard<F: FnOnce() -> String + std::panic::UnwindSafe>(f: F) -> String {
    match std::panic::catch_unwind(f) {
        Ok(s) => s,
        Err(_) => "panic".to_string(),
    }
}

pub fn class_of(line: &str) -> &str {
    line.split(' ').next().unwrap_or("")
}

/// pipe request lines through the compiled Lean driver, one answer per line. The requests are dealt out to the
/// worker processes round-robin (request i goes to worker i mod n), so that a run of expensive neighbours - the large
/// messages of one generator block - is spread over all of them; the answers are put back in request order
pub fn run_driver(driver: &str, ops: &[&str]) -> Vec<String> {
    if ops.is_empty() {
        return vec![];
    }
    let workers = std::thread::available_parallelism().map(|n| n.get()).unwrap_or(4).min(16).min(ops.len());
    let mut out: Vec<String> = vec!["driver-died".to_string(); ops.len()];
    std::thread::scope(|s| {
        let handles: Vec<_> = (0..workers)
            .map(|w| {
                s.spawn(move || {
                    let mut child = Command::new(driver)
                        .stdin(Stdio::piped())
                        .stdout(Stdio::piped())
                        .spawn()
                        .expect("cannot start the Lean driver");
                    let mut stdin = child.stdin.take().unwrap();
                    let mut input = String::new();
                    let mut k = w;
                    while k < ops.len() { input.push_str(ops[k]); input.push('\n'); k += workers; }
                    let writer = std::thread::spawn(move || {
                        let _ = stdin.write_all(input.as_bytes());
                    });
                    let output = child.wait_with_output().expect("driver failed");
                    let _ = writer.join();
                    let text = String::from_utf8_lossy(&output.stdout).to_string();
                    let lines: Vec<String> = text.lines().map(|l| l.to_string()).collect();
                    (w, lines)
                })
            })
            .collect();
        for h in handles {
            let (w, lines) = h.join().unwrap();
            for (j, line) in lines.into_iter().enumerate() {
                let at = w + j * workers;
                if at < out.len() { out[at] = line; }
            }
        }
    });
    out
}

pub struct Report {
    pub property: String,
    pub evaluations: usize,
    pub distinct_nontrivial: usize,
    pub compared: usize,
    pub tags: BTreeMap<String, usize>,
    pub samples: Vec<J>,
    /// correspondence failures: (case index, op, impl, model)
    pub disagreements: Vec<(usize, String, String, String)>,
    /// oracle failures on the implementation: (case index, key, message, op)
    pub oracle_failures: Vec<(usize, String, String, String)>,
    pub extra: BTreeMap<String, J>,
}

fn clip(s: &str) -> String {
    if s.len() > 600 {
        format!("{}…[{} chars]", &s[..600], s.len())
    } else {
        s.to_string()
    }
}

pub fn evaluate(property: &str, driver: &str, cases: Vec<Case>) -> Report {
    // the pass against the library built without debug assertions and overflow checks evaluates the oracles only (the model
    // comparison was made by the first pass, on the same requests)
    let mut cases = cases;
    if std::env::var("VHARNESS_ORACLES_ONLY").ok().as_deref() == Some("1") {
        for c in cases.iter_mut() { c.proj = Proj::None; c.alt = None; c.spec = None; }
    }
    let idxs: Vec<usize> = cases.iter().enumerate().filter(|(_, c)| c.proj != Proj::None).map(|(i, _)| i).collect();
    let ops: Vec<&str> = idxs.iter().map(|i| cases[*i].op.as_str()).collect();
    let model = run_driver(driver, &ops);
    let mut rep = Report {
        property: property.to_string(),
        evaluations: cases.len(),
        distinct_nontrivial: 0,
        compared: ops.len(),
        tags: BTreeMap::new(),
        samples: vec![],
        disagreements: vec![],
        oracle_failures: vec![],
        extra: BTreeMap::new(),
    };
    let aidx: Vec<usize> = cases.iter().enumerate().filter(|(_, c)| c.alt.is_some()).map(|(i, _)| i).collect();
    let aops: Vec<&str> = aidx.iter().map(|i| cases[*i].alt.as_ref().unwrap().as_str()).collect();
    let aout = run_driver(driver, &aops);
    let alt_of: std::collections::HashMap<usize, &String> = aidx.iter().copied().zip(aout.iter()).collect();
    let mut inconclusive = 0usize;
    let mut seen: HashSet<u64> = HashSet::new();
    for (k, i) in idxs.iter().enumerate() {
        let c = &cases[*i];
        let m = &model[k];
        if let Some(a) = alt_of.get(i) {
            if *a != m {
                inconclusive += 1;
                continue;
            }
        }
        let same = match c.proj {
            Proj::Exact => *m == c.impl_out,
            Proj::Class => class_of(m) == class_of(&c.impl_out),
            Proj::NoPanic => (class_of(m) == "panic") == (class_of(&c.impl_out) == "panic"),
            Proj::None => true,
        };
        if !same || m == "bad-op" || m == "driver-died" {
            rep.disagreements.push((*i, c.op.clone(), c.impl_out.clone(), m.clone()));
        }
    }
    rep.extra.insert("inconclusive".to_string(), J::Int(inconclusive as i64));
    // the specification's verdict on the implementation's output
    let sidx: Vec<usize> = cases.iter().enumerate().filter(|(_, c)| c.spec.is_some()).map(|(i, _)| i).collect();
    let sops: Vec<&str> = sidx.iter().map(|i| cases[*i].spec.as_ref().unwrap().0.as_str()).collect();
    let sout = run_driver(driver, &sops);
    rep.extra.insert("checked_against_spec".to_string(), J::Int(sops.len() as i64));
    for (k, i) in sidx.iter().enumerate() {
        let c = &cases[*i];
        let (op, check) = c.spec.as_ref().unwrap();
        if let Some((key, msg)) = check(&c.impl_out, &sout[k]) {
            rep.oracle_failures.push((*i, key, format!("{} [spec: {}]", msg, sout[k]), op.clone()));
        }
    }
    let step = (cases.len() / 6).max(1);
    for (i, c) in cases.iter().enumerate() {
        if c.nontrivial {
            use std::hash::{Hash, Hasher};
            let mut h = std::collections::hash_map::DefaultHasher::new();
            c.op.hash(&mut h);
            c.impl_out.hash(&mut h);
            if c.op.is_empty() {
                i.hash(&mut h);
            }
            if seen.insert(h.finish()) {
                rep.distinct_nontrivial += 1;
            }
        }
        for t in &c.tags {
            *rep.tags.entry(t.clone()).or_insert(0) += 1;
        }
        if let Some((key, msg)) = c.oracle_fail.as_ref().or(c.deferred_fail.as_ref()) {
            rep.oracle_failures.push((i, key.clone(), msg.clone(), c.op.clone()));
        }
        if i % step == 0 && rep.samples.len() < 8 && !c.op.is_empty() {
            let mut s = J::obj();
            s.set("op", J::Str(clip(&c.op))).set("impl", J::Str(clip(&c.impl_out)));
            rep.samples.push(s);
        }
    }
    rep
}

impl Report {
    pub fn to_json(&self) -> J {
        let mut j = J::obj();
        j.set("property", J::s(&self.property))
            .set("evaluations", J::Int(self.evaluations as i64))
            .set("distinct_nontrivial", J::Int(self.distinct_nontrivial as i64))
            .set("compared_with_model", J::Int(self.compared as i64))
            .set("samples", J::Arr(self.samples.clone()))
            .set(
                "distribution",
                J::Obj(self.tags.iter().map(|(k, v)| (k.clone(), J::Int(*v as i64))).collect()),
            )
            .set(
                "disagreements",
                J::Arr(
                    self.disagreements
                        .iter()
                        .take(50)
                        .map(|(i, op, im, mo)| {
                            let mut d = J::obj();
                            d.set("case", J::Int(*i as i64))
                                .set("op", J::s(op))
                                .set("impl", J::s(im))
                                .set("model", J::s(mo));
                            d
                        })
                        .collect(),
                ),
            )
            .set("disagreement_count", J::Int(self.disagreements.len() as i64))
            .set("oracle_failures", {
                // at most 25 per key, so that every kind of failure is represented
                let mut per: BTreeMap<String, usize> = BTreeMap::new();
                let mut out = vec![];
                for (i, key, msg, op) in self.oracle_failures.iter() {
                    let n = per.entry(key.clone()).or_insert(0);
                    *n += 1;
                    if *n > 25 { continue; }
                    let mut d = J::obj();
                    d.set("case", J::Int(*i as i64)).set("key", J::s(key)).set("message", J::s(msg)).set("op", J::s(op));
                    out.push(d);
                }
                J::Arr(out)
            })
            .set("oracle_failure_keys", {
                let mut per: BTreeMap<String, J> = BTreeMap::new();
                for (_, key, _, _) in self.oracle_failures.iter() {
                    let e = per.entry(key.clone()).or_insert(J::Int(0));
                    if let J::Int(n) = e { *n += 1; }
                }
                J::Obj(per)
            })
            .set("oracle_failure_count", J::Int(self.oracle_failures.len() as i64));
        for (k, v) in &self.extra {
            j.set(k, v.clone());
        }
        j
    }
}
