//! vharness <property> <quick|thorough> <seed> <driver> <out.json> [--search]
mod alloc;
mod core;
mod gen;
mod json;
mod props;
mod refenc;
mod walker;
mod rng;
mod text;

#[global_allocator]
static GLOBAL: alloc::Counting = alloc::Counting;

use json::J;
use std::sync::atomic::{AtomicU64, Ordering};

pub static PROGRESS: AtomicU64 = AtomicU64::new(0);

fn main() {
    let args: Vec<String> = std::env::args().collect();
    if args.len() < 6 {
        eprintln!("usage: vharness <property> <quick|thorough> <seed> <driver> <out.json>");
        std::process::exit(2);
    }
    let (prop, tier, seed, driver, out) = (&args[1], &args[2], args[3].parse::<u64>().unwrap_or(1), &args[4], &args[5]);
    std::panic::set_hook(Box::new(|_| {}));
    let t0 = std::time::Instant::now();
    let cases = match props::cases(prop, tier, seed) {
        Some(c) => c,
        None => {
            eprintln!("unknown property {}", prop);
            std::process::exit(2);
        }
    };
    let gen_s = t0.elapsed().as_secs_f64();
    let mut rep = core::evaluate(prop, driver, cases);
    // correspondence broke but no oracle failure in this batch: search wider on the implementation
    let mut searched = 0usize;
    if !rep.disagreements.is_empty() && rep.oracle_failures.is_empty() {
        let budgets: &[(&str, u64)] = if tier == "thorough" { &[("thorough", 7), ("thorough", 8)] } else { &[("quick", 101), ("quick", 102), ("thorough", 103)] };
        for (t, s) in budgets {
            if let Some(more) = props::cases(prop, t, seed.wrapping_add(*s)) {
                searched += more.len();
                let r2 = core::evaluate(prop, driver, more);
                if !r2.oracle_failures.is_empty() {
                    rep.oracle_failures = r2.oracle_failures;
                    rep.extra.insert("search_found_in".into(), J::s(&format!("{} seed+{}", t, s)));
                    break;
                }
            }
        }
    }
    rep.extra.insert("search_evaluations".into(), J::Int(searched as i64));
    rep.extra.insert("generation_s".into(), J::Num(gen_s));
    rep.extra.insert("harness_wall_s".into(), J::Num(t0.elapsed().as_secs_f64()));
    rep.extra.insert("tier".into(), J::s(tier));
    rep.extra.insert("seed".into(), J::Int(seed as i64));
    std::fs::write(out, rep.to_json().to_string()).expect("cannot write the report");
    let _ = PROGRESS.load(Ordering::Relaxed);
}
