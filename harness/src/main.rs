fn main() { println!("hello"); }
