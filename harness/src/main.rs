//! vharness <property> <quick|thorough> <seed> <driver> <out.json> [--search]
mod alloc;
mod core;
mod gen;
mod json;
mod props;
mod refenc;
mod walker;
mod rng;
mod text;

#[global_allocator]
static GLOBAL: alloc::Counting = alloc::Counting;

use json::J;
use std::sync::atomic::{AtomicU64, Ordering};

pub static PROGRESS: AtomicU64 = AtomicU64::new(0);

/// a logger that formats every record and throws the text away: with no logger installed the `log` macros do not evaluate
/// their arguments at all, so code inside `log::debug!(..)` statements would never run in any check; applications do
/// install loggers
struct Sink;
impl log::Log for Sink {
    fn enabled(&self, _: &log::Metadata) -> bool { true }
    fn log(&self, record: &log::Record) { let text = format!("{} {}", record.level(), record.args()); std::hint::black_box(text.len()); }
    fn flush(&self) {}
}
static SINK: Sink = Sink;

fn main() {
    let _ = log::set_logger(&SINK);
    log::set_max_level(log::LevelFilter::Trace);
    let args: Vec<String> = std::env::args().collect();
    if args.len() == 4 && args[1] == "--stack-probe" {
        props::c01::stack_probe_child(&args[2], args[3].parse().unwrap_or(65536));
        return;
    }
    if args.len() < 6 {
        eprintln!("usage: vharness <property> <quick|thorough> <seed> <driver> <out.json>");
        std::process::exit(2);
    }
    let (prop, tier, seed, driver, out) = (&args[1], &args[2], args[3].parse::<u64>().unwrap_or(1), &args[4], &args[5]);
    std::panic::set_hook(Box::new(|_| {}));
    let t0 = std::time::Instant::now();
    // watchdog: an implementation call that does not return within 20 s is a hang; it is reported
    // as a failure of the property with the input as replay (the stuck thread cannot be resumed)
    {
        let (prop, out, tier) = (prop.clone(), out.clone(), tier.clone());
        std::thread::spawn(move || loop {
            std::thread::sleep(std::time::Duration::from_millis(500));
            let cur = core::CURRENT.lock().unwrap().clone();
            if let Some((label, since)) = cur {
                if since.elapsed().as_secs() >= core::BUDGET_SECS.load(std::sync::atomic::Ordering::SeqCst) {
                    let mut j = J::obj();
                    let mut f = J::obj();
                    f.set("case", J::Int(-1)).set("key", J::s("hang")).set("message", J::s("the implementation did not return within 20 s on this input")).set("op", J::s(&label));
                    let mut smp = J::obj();
                    smp.set("op", J::s(&label)).set("impl", J::s("(no return)"));
                    j.set("property", J::s(&prop)).set("evaluations", J::Int(1)).set("distinct_nontrivial", J::Int(1))
                        .set("compared_with_model", J::Int(0)).set("samples", J::Arr(vec![smp])).set("distribution", J::obj())
                        .set("disagreements", J::Arr(vec![])).set("disagreement_count", J::Int(0))
                        .set("oracle_failures", J::Arr(vec![f])).set("oracle_failure_count", J::Int(1)).set("tier", J::s(&tier))
                        .set("aborted_by_watchdog", J::Bool(true));
                    let _ = std::fs::write(&out, j.to_string());
                    std::process::exit(0);
                }
            }
        });
    }
    let generated = std::panic::catch_unwind(|| props::cases(prop, tier, seed));
    let cases = match generated {
        Ok(Some(c)) => c,
        Ok(None) => {
            eprintln!("unknown property {}", prop);
            std::process::exit(2);
        }
        Err(_) => {
            // a panic of the implementation outside a guarded call: report it with the announced input
            let label = core::CURRENT.lock().map(|c| c.clone().map(|x| x.0)).unwrap_or(None).unwrap_or_default();
            let mut c = core::Case::new(label.clone(), "panic".to_string()).proj(core::Proj::None);
            c = c.fail("panic", "the implementation panicked on this input (outside a guarded call of the harness)".to_string());
            vec![c]
        }
    };
    core::watch_clear();
    let gen_s = t0.elapsed().as_secs_f64();
    let mut rep = core::evaluate(prop, driver, cases);
    // correspondence broke but no oracle failure in this batch: search wider on the implementation
    let mut searched = 0usize;
    if !rep.disagreements.is_empty() && rep.oracle_failures.is_empty() {
        let budgets: &[(&str, u64)] = if tier == "thorough" { &[("thorough", 7), ("thorough", 8)] } else { &[("quick", 101), ("quick", 102), ("thorough", 103)] };
        for (t, s) in budgets {
            if let Some(more) = props::cases(prop, t, seed.wrapping_add(*s)) {
                core::watch_clear();
                searched += more.len();
                let r2 = core::evaluate(prop, driver, more);
                if !r2.oracle_failures.is_empty() {
                    rep.oracle_failures = r2.oracle_failures;
                    rep.extra.insert("search_found_in".into(), J::s(&format!("{} seed+{}", t, s)));
                    break;
                }
            }
        }
    }
    rep.extra.insert("search_evaluations".into(), J::Int(searched as i64));
    rep.extra.insert("generation_s".into(), J::Num(gen_s));
    rep.extra.insert("harness_wall_s".into(), J::Num(t0.elapsed().as_secs_f64()));
    rep.extra.insert("tier".into(), J::s(tier));
    rep.extra.insert("seed".into(), J::Int(seed as i64));
    std::fs::write(out, rep.to_json().to_string()).expect("cannot write the report");
    let _ = PROGRESS.load(Ordering::Relaxed);
}
