#!/usr/bin/env python3
"""translate_env.py -- second part of the structural tie: the message *envelope*.

    python3 tools/translate_env.py [--repo /repo] [--out lean/SimpleDnsModel/Generated/Envelope.lean]

tools/translate.py derives the RDATA tables, codes and constants; this script derives, from the statements
of the functions that frame a message, the numbers and orders the model's envelope functions are written
with: byte ranges of the header-peek functions, of `Header::parse`, `Question::parse`,
`ResourceRecord::parse` and `RData::parse` (guards, offsets, widths, advances, masks), the order of the
writes of `Header::write_to`, `Question::write_common`, `ResourceRecord::write_common` / `write_to`,
`Packet::write_to` / `write_compressed_to`, the order of the sections of `Packet::parse`, the arms of
`match_qtype` / `match_qclass`, and the arithmetic of `ExpirationInfo::new`.
`Props/TieEnv.lean` proves that the model's functions ARE the generic functions instantiated with these
generated values (`Question.parse = Question.parseWith Gen.Env.…`), so that a readable but different
source makes a theorem fail.

Same rules as translate.py: nothing here knows the expected numbers; every item is extracted on its own;
a function whose statements do not all have a recognised shape unties THAT item (value `none`, its name
in `Gen.Env.untied`, a line `translate_env.py: UNTIED <item>: <reason>` on stdout, exit 0).
Standard library only.
"""
import argparse, os, re, sys, time
sys.path.insert(0, os.path.dirname(os.path.abspath(__file__)))
from translate import compact, block_after, block_end, statements, split_top, num, struct_fields, Refuse, refuse

UNTIED, TIED = [], []

def compact_keep(src):
    """like `compact`, with the text of string and character literals kept (translate.compact empties them)"""
    lits, out, i, n = [], [], 0, len(src)
    while i < n:
        c = src[i]
        if c == '"':
            j = i + 1
            while j < n and src[j] != '"': j += 2 if src[j] == '\\' else 1
            lits.append(src[i:j + 1]); out.append(f' LIT{len(lits) - 1}Q '); i = j + 1
        elif c == "'" and re.match(r"'(\\.|[^\\'])'", src[i:]):
            m = re.match(r"'(\\.|[^\\'])'", src[i:]); lits.append(m.group(0)); out.append(f' LIT{len(lits) - 1}Q '); i += m.end()
        elif src.startswith('//', i):
            j = src.find('\n', i); i = n if j < 0 else j
        elif src.startswith('/*', i):
            j = src.find('*/', i); i = n if j < 0 else j + 2
        else:
            out.append(c); i += 1
    text = ''.join(out)
    m = re.search(r'#\[cfg\(test\)\]\s*(pub\s+)?mod\b', text)
    if m: text = text[:m.start()]
    toks = re.findall(r"'?[A-Za-z_0-9]+|\S", text)
    res = []
    for t in toks:
        if res and re.match(r'\w', t) and re.search(r'\w$', res[-1]): res.append(' ')
        res.append(t)
    text = ''.join(res)
    return re.sub(r' ?LIT(\d+)Q ?', lambda m: lits[int(m.group(1))], text)

def attempt(name, fn):
    try:
        # (self-test only: TRANSLATE_ENV_UNTIE=all or a comma-separated list makes the named items unreadable, to check
        # that every theorem of the tie degrades to the model's own values instead of failing)
        forced = os.environ.get('TRANSLATE_ENV_UNTIE', '')
        if forced and (forced == 'all' or name in forced.split(',')): refuse(name, 'made unreadable for the self-test')
        v = fn()
        TIED.append(name)
        return v
    except Refuse as e:
        UNTIED.append((name, ' '.join(str(e).split())))
    except OSError:
        raise
    except Exception as e:
        UNTIED.append((name, f"unexpected source text ({type(e).__name__}: {e})"))
    return None

NUM = r'(\d\w*)'
P = r'\*position'
def off(x): return num(x) if x else 0
ERRRET = r'\{return Err\([^{}]*\);?\}'

def fn_body(text, name, where, params=None):
    hdr = rf'\bfn {name}\b' + (rf'(?:<[^(]*>)?\({params}' if params else '')
    return block_after(text, hdr, where)

def only(where, sts, patterns):
    """every statement must match exactly one pattern (name -> regex); returns name -> [match]"""
    got = {k: [] for k, _ in patterns}
    for st in sts:
        for k, rx in patterns:
            m = re.match(rx + '$', st)
            if m:
                got[k].append(m); break
        else:
            refuse(where, f"unrecognised statement: {st[:160]}")
    return got

def one(where, got, k):
    if len(got[k]) != 1: refuse(where, f"expected exactly one `{k}` statement, found {len(got[k])}")
    return got[k][0]

# ------------------------------------------------------------------ header_buffer.rs
def peeks(text):
    W = 'header_buffer.rs'
    out = {}
    tail = r'\.map_err\(\|_\|crate::SimpleDnsError::\w+\)'
    head = r'buffer\.get\((\d*)\.\.(\d+)\)\.ok_or\(crate::SimpleDnsError::\w+\)\?\.try_into\(\)\.map\(u16::from_be_bytes\)'
    kinds = [('u16', r''),
             ('truncContains', r'\.map\(\|(?P<v>\w+)\|PacketFlag::from_bits_truncate\((?P=v)\)\.contains\(flags\)\)'),
             ('mask:RESPONSE_CODE_MASK', r'\.map\(\|(?P<v>\w+)\|\((?P=v)&masks::RESPONSE_CODE_MASK\)\.into\(\)\)'),
             ('maskShift:OPCODE_MASK', r'\.map\(\|(?P<v>\w+)\|\(\((?P=v)&masks::OPCODE_MASK\)>>masks::OPCODE_MASK\.trailing_zeros\(\)\)\.into\(\)\)')]
    for fn in ('id', 'questions', 'answers', 'name_servers', 'additional_records', 'has_flags', 'rcode', 'opcode'):
        def get(fn=fn):
            body = fn_body(text, fn, f"{W}: fn {fn}", r'buffer:&\[u8\]')
            for kind, mid in kinds:
                m = re.match(head + mid + tail + '$', body)
                if m: return (off(m.group(1)), num(m.group(2)), kind)
            refuse(f"{W}: fn {fn}", f"body not of the form buffer.get(a..b)…map(u16::from_be_bytes)…: {body[:160]}")
        out[fn] = attempt(f"peek:{fn}", get)
    return out

# ------------------------------------------------------------------ header.rs
def header_parse(text):
    W = 'header.rs: Header::parse'
    body = fn_body(text, 'parse', W, r'data:&')
    got = only(W, statements(body), [
        ('minlen', r'if data\.len\(\)<(\d+)' + ERRRET),
        ('flags', r'let flags=u16::from_be_bytes\(data\[(\d*)\.\.(\d+)\]\.try_into\(\)\?\);'),
        ('reserved', r'if flags&masks::RESERVED_MASK!=0' + ERRRET),
        ('make', r'let header=Self\{(.*)\};'),
        ('ret', r'Ok\(header\)')])
    order = [k for st in statements(body) for k, ms in got.items() if any(m.string == st for m in ms)]
    if order != ['minlen', 'flags', 'reserved', 'make', 'ret']: refuse(W, f"statement order {order}")
    inits = dict(i.split(':', 1) for i in split_top(one(W, got, 'make').group(1), angle=False))
    m = re.match(r'u16::from_be_bytes\(data\[(\d*)\.\.(\d+)\]\.try_into\(\)\?\)$', inits.get('id', ''))
    if not m: refuse(W, f"id initialiser: {inits.get('id')}")
    want = {'opcode': r'\(\(flags&masks::OPCODE_MASK\)>>masks::OPCODE_MASK\.trailing_zeros\(\)\)\.into\(\)',
            'response_code': r'\(flags&masks::RESPONSE_CODE_MASK\)\.into\(\)',
            'z_flags': r'PacketFlag::from_bits_truncate\(flags\)', 'opt': r'None'}
    for f, rx in want.items():
        if not re.match(rx + '$', inits.get(f, '')): refuse(W, f"{f} initialiser: {inits.get(f)}")
    if set(inits) != set(want) | {'id'}: refuse(W, f"fields {sorted(inits)}")
    fl = one(W, got, 'flags')
    return {'minLen': num(one(W, got, 'minlen').group(1)), 'flags': (off(fl.group(1)), num(fl.group(2))),
            'id': (off(m.group(1)), num(m.group(2)))}

def header_write(text):
    W = 'header.rs: Header::write_to'
    body = fn_body(text, 'write_to', W)
    order = []
    for st in statements(body):
        m = re.match(r'buffer\.write_all\(&(self\.id|self\.get_flags\(\)|questions|answers|name_servers|additional_records)\.to_be_bytes\(\)\)\?;$', st)
        if m: order.append({'self.id': 'id', 'self.get_flags()': 'flags'}.get(m.group(1), m.group(1)))
        elif st != 'Ok(())': refuse(W, f"unrecognised statement: {st}")
    sig = re.search(r'fn write_to<T:Write>\(&self,buffer:&mut T,((?:\w+:u16,?)+)\)', text)
    if not sig: refuse(W, "signature not recognised")
    params = [p.split(':')[0] for p in split_top(sig.group(1))]
    return order, params

def header_get_flags(text):
    W = 'header.rs: Header::get_flags'
    body = fn_body(text, 'get_flags', W)
    sts = statements(body)
    want = [r'let mut flags=self\.z_flags\.bits\(\);', r'flags\|=\(self\.opcode as u16\)<<masks::OPCODE_MASK\.trailing_zeros\(\);',
            r'flags\|=self\.response_code as u16&masks::RESPONSE_CODE_MASK;', r'flags']
    # the two `|=` statements commute
    if len(sts) != 4 or not re.match(want[0] + '$', sts[0]) or not re.match(want[3] + '$', sts[3]): refuse(W, f"statements {sts}")
    mid = sorted(sts[1:3]);
    if not (any(re.match(want[1] + '$', s) for s in mid) and any(re.match(want[2] + '$', s) for s in mid)): refuse(W, f"statements {sts}")
    return True

def flag_ops(text):
    W = 'header.rs: set_flags / remove_flags / has_flags'
    ops = {}
    for fn, rxs in (('set_flags', {'or': r'self\.z_flags\|=flags;', 'insert': r'self\.z_flags\.insert\(flags\);'}),
                    ('remove_flags', {'remove': r'self\.z_flags\.remove\(flags\);', 'andnot': r'self\.z_flags&=!flags;'}),
                    ('has_flags', {'contains': r'self\.z_flags\.contains\(flags\)'})):
        body = fn_body(text, fn, W, r'&(?:mut )?self,flags:PacketFlag')
        k = [k for k, rx in rxs.items() if re.match(rx + '$', body)]
        if not k: refuse(W, f"fn {fn}: {body[:120]}")
        ops[fn] = k[0]
    return ops

# ------------------------------------------------------------------ question.rs
def question_parse(text):
    W = 'question.rs: Question::parse'
    impl = block_after(text, r"impl(?:<[^>]*>)? ?WireFormat<[^>]*>for Question\b(?:<[^>]*>)?\{", W)
    body = fn_body(impl, 'parse', W)
    rd = lambda v: rf'let {v}=u16::from_be_bytes\(data\[{P}(?:\+(\d+))?\.\.{P}\+(\d+)\]\.try_into\(\)\?\);'
    sts = statements(body)
    got = only(W, sts, [
        ('name', rf'let qname=Name::parse\(data,position\)\?;'),
        ('guard', rf'if ?{P}\+(\d+)>data\.len\(\)' + ERRRET),
        ('qtype', rd('qtype')), ('qclass', rd('qclass')),
        ('adv', rf'{P}\+=(\d+);'),
        ('ret', r'Ok\(Self\{(.*)\}\)')])
    idx = {k: sts.index(one(W, got, k).string) for k in got}
    if not (idx['name'] < idx['guard'] < min(idx['qtype'], idx['qclass']) and max(idx['qtype'], idx['qclass']) < idx['adv'] < idx['ret']):
        refuse(W, f"statement order {idx}")
    inits = dict(i.split(':', 1) if ':' in i else (i, i) for i in split_top(got['ret'][0].group(1), angle=False))
    if inits.get('qname') != 'qname' or inits.get('qtype') != 'QTYPE::try_from(qtype)?' or set(inits) != {'qname', 'qtype', 'qclass', 'unicast_response'}:
        refuse(W, f"initialisers {inits}")
    mc = re.match(r'QCLASS::try_from\(qclass&' + NUM + r'\)\?$', inits['qclass'])
    mu = re.match(r'qclass&' + NUM + r'==' + NUM + '$', inits['unicast_response'])
    if not mc or not mu or num(mu.group(1)) != num(mu.group(2)): refuse(W, f"class / unicast initialisers {inits}")
    t, c = got['qtype'][0], got['qclass'][0]
    return {'guard': num(got['guard'][0].group(1)), 'qtype': (off(t.group(1)), num(t.group(2))), 'qclass': (off(c.group(1)), num(c.group(2))),
            'advance': num(got['adv'][0].group(1)), 'classMask': num(mc.group(1)), 'unicastMask': num(mu.group(1))}

def question_write(text):
    W = 'question.rs: Question::write_common'
    body = fn_body(text, 'write_common', W)
    sts = statements(body)
    got = only(W, sts, [
        ('cls', r'let qclass:u16=match self\.unicast_response\{true=>Into::<u16>::into\(self\.qclass\)\|' + NUM + r',false=>self\.qclass\.into\(\),\};'),
        ('wtype', r'out\.write_all\(&Into::<u16>::into\(self\.qtype\)\.to_be_bytes\(\)\)(?:\?;|\.map_err\(crate::SimpleDnsError::from\))'),
        ('wclass', r'out\.write_all\(&qclass\.to_be_bytes\(\)\)(?:\?;|\.map_err\(crate::SimpleDnsError::from\))')])
    order = sorted(('wtype', 'wclass'), key=lambda k: sts.index(one(W, got, k).string))
    if sts.index(one(W, got, 'cls').string) > sts.index(got['wclass'][0].string): refuse(W, "qclass used before it is computed")
    return {'unicastBit': num(got['cls'][0].group(1)), 'order': [{'wtype': 'qtype', 'wclass': 'qclass'}[k] for k in order]}

# ------------------------------------------------------------------ resource_record.rs
def rr_parse(text):
    W = 'resource_record.rs: ResourceRecord::parse'
    impl = block_after(text, r"impl(?:<[^>]*>)? ?WireFormat<[^>]*>for ResourceRecord\b(?:<[^>]*>)?\{", W)
    body = fn_body(impl, 'parse', W)
    rd = lambda v, ty: rf'let {v}={ty}::from_be_bytes\(data\[{P}(?:\+(\d+))?\.\.{P}\+(\d+)\]\.try_into\(\)\?\);'
    sts = statements(body)
    got = only(W, sts, [
        ('name', r'let name=Name::parse\(data,position\)\?;'),
        ('guard', rf'if ?{P}\+(\d+)>data\.len\(\)' + ERRRET),
        ('class', rd('class_value', 'u16')), ('ttl', rd('ttl', 'u32')),
        ('rdata', r'let rdata=RData::parse\(data,position\)\?;'),
        ('branch', r'if rdata\.type_code\(\)==TYPE::OPT\{Ok\(Self\{(.*?)\}\)\}else\{(.*)\}')])
    idx = {k: sts.index(one(W, got, k).string) for k in got}
    if not (idx['name'] < idx['guard'] < min(idx['class'], idx['ttl']) and max(idx['class'], idx['ttl']) < idx['rdata'] < idx['branch']):
        refuse(W, f"statement order {idx}")     # the class and TTL must be read before RData::parse moves *position
    b = got['branch'][0]
    o = dict(i.split(':', 1) if ':' in i else (i, i) for i in split_top(b.group(1), angle=False))
    if o != {'name': 'name', 'class': 'CLASS::IN', 'ttl': 'ttl', 'rdata': 'rdata', 'cache_flush': 'false'}: refuse(W, f"OPT branch {o}")
    est = statements(b.group(2))
    eg = only(W + " (else)", est, [
        ('flush', r'let cache_flush=class_value&flag::CACHE_FLUSH==flag::CACHE_FLUSH;'),
        ('class', r'let class=\(class_value&!flag::CACHE_FLUSH\)\.try_into\(\)\?;'),
        ('ret', r'Ok\(Self\{name,class,ttl,rdata,cache_flush,?\}\)')])
    for k in eg: one(W + " (else)", eg, k)
    c, t = got['class'][0], got['ttl'][0]
    return {'guard': num(got['guard'][0].group(1)), 'class': (off(c.group(1)), num(c.group(2))), 'ttl': (off(t.group(1)), num(t.group(2)))}

def rr_write(text):
    W = 'resource_record.rs: write_common / write_to / len'
    body = fn_body(text, 'write_common', W)
    sts = statements(body)
    got = only(W, sts, [
        ('type', r'out\.write_all\(&u16::from\(self\.rdata\.type_code\(\)\)\.to_be_bytes\(\)\)\?;'),
        ('class', r'if let RData::OPT\(ref opt\)=self\.rdata\{out\.write_all\(&opt\.udp_packet_size\.to_be_bytes\(\)\)\?;\}else\{'
                  r'let class=if self\.cache_flush\{\(\(self\.class as u16\)\|flag::CACHE_FLUSH\)\.to_be_bytes\(\)\}else\{\(self\.class as u16\)\.to_be_bytes\(\)\};'
                  r'out\.write_all\(&class\)\?;\}'),
        ('ttl', r'out\.write_all\(&self\.ttl\.to_be_bytes\(\)\)(?:\?;|\.map_err\(crate::SimpleDnsError::from\))')])
    common = sorted(('type', 'class', 'ttl'), key=lambda k: sts.index(one(W, got, k).string))
    impl = block_after(text, r"impl(?:<[^>]*>)? ?WireFormat<[^>]*>for ResourceRecord\b(?:<[^>]*>)?\{", W)
    wsts = statements(fn_body(impl, 'write_to', W))
    wg = only(W + " (write_to)", wsts, [
        ('name', r'self\.name\.write_to\(out\)\?;'), ('common', r'self\.write_common\(out\)\?;'),
        ('rdlen', r'out\.write_all\(&\(self\.rdata\.len\(\)as u16\)\.to_be_bytes\(\)\)\?;'),
        ('rdata', r'self\.rdata\.write_to\(out\)')])
    order = sorted(wg, key=lambda k: wsts.index(one(W, wg, k).string))
    m = re.match(r'self\.name\.len\(\)\+self\.rdata\.len\(\)\+(\d+)$', fn_body(impl, 'len', W))
    if not m: refuse(W, "fn len not of the form name.len() + rdata.len() + N")
    return {'common': common, 'order': order, 'fixedLen': num(m.group(1))}

def rr_write_compressed(text):
    """the steps of `ResourceRecord::write_compressed_to`: RDLENGTH is back-patched by seeking"""
    W = 'resource_record.rs: ResourceRecord::write_compressed_to'
    impl = block_after(text, r"impl(?:<[^>]*>)? ?WireFormat<[^>]*>for ResourceRecord\b(?:<[^>]*>)?\{", W)
    sts = statements(fn_body(impl, 'write_compressed_to', W))
    pats = [('name', r'self\.name\.write_compressed_to\(out,name_refs\)\?;'),
            ('common', r'self\.write_common\(out\)\?;'),
            ('mark:len_position', r'let len_position=out\.stream_position\(\)\?;'),
            ('placeholder', r'out\.write_all\(&\[0,0\]\)\?;'),
            ('rdata', r'self\.rdata\.write_compressed_to\(out,name_refs\)\?;'),
            ('mark:end', r'let end=out\.stream_position\(\)\?;'),
            ('seek:start(len_position)', r'out\.seek\(std::io::SeekFrom::Start\(len_position\)\)\?;'),
            ('seek:start(end)', r'out\.seek\(std::io::SeekFrom::Start\(end\)\)\?;'),
            ('seek:end(0)', r'out\.seek\(std::io::SeekFrom::End\(0\)\)\?;'),
            ('patch:end-len_position-2', r'out\.write_all\(&\(\(end-len_position-2\)as u16\)\.to_be_bytes\(\)\)\?;'),
            ('patch:rdata.len', r'out\.write_all\(&\(self\.rdata\.len\(\)as u16\)\.to_be_bytes\(\)\)\?;'),
            ('ok', r'Ok\(\(\)\)')]
    steps = []
    for st in sts:
        k = [k for k, rx in pats if re.match(rx + '$', st)]
        if not k: refuse(W, f"unrecognised statement: {st[:160]}")
        if k[0] != 'ok': steps.append(k[0])
    return steps

def match_tables(text):
    W = 'resource_record.rs: match_qtype / match_qclass'
    body = fn_body(text, 'match_qtype', W)
    sts = statements(body)
    if len(sts) != 2 or sts[0] != 'let type_code=self.rdata.type_code();': refuse(W, f"statements {sts}")
    arms = {}
    for arm in split_top(block_after(sts[1] + ' ', r'^match qtype\{', W), angle=False):
        m = re.match(r'QTYPE::(\w+)=>(true|false)$', arm)
        if m: arms[m.group(1)] = m.group(2); continue
        m = re.match(r'QTYPE::(\w+)=>((?:type_code==TYPE::\w+(?:\|\|)?)+)$', arm)
        if m: arms[m.group(1)] = sorted(re.findall(r'TYPE::(\w+)', m.group(2))); continue
        if re.match(r'QTYPE::TYPE\((\w+)\)=>(?:\1==type_code|type_code==\1)$', arm): arms['TYPE'] = 'eq'; continue
        refuse(W, f"unrecognised arm: {arm}")
    cbody = fn_body(text, 'match_qclass', W)
    carms = {}
    for arm in split_top(block_after(cbody + ' ', r'^match qclass\{', W), angle=False):
        if re.match(r'QCLASS::CLASS\((\w+)\)=>(?:\1==self\.class|self\.class==\1)$', arm): carms['CLASS'] = 'eq'
        elif re.match(r'QCLASS::ANY=>true$', arm): carms['ANY'] = 'true'
        else: refuse(W, f"unrecognised arm: {arm}")
    return arms, carms

# ------------------------------------------------------------------ rdata/macros.rs : RData::parse
def rdata_parse(text):
    W = 'rdata/macros.rs: RData::parse'
    impl = block_after(text, r"impl<'a>WireFormat<'a>for RData<'a>\{", W)
    body = fn_body(impl, 'parse', W)
    sts = statements(body)
    got = only(W, sts, [
        ('guard', rf'if ?{P}\+(\d+)>data\.len\(\)' + ERRRET),
        ('type', rf'let rdatatype=u16::from_be_bytes\(data\[{P}(?:\+(\d+))?\.\.{P}\+(\d+)\]\.try_into\(\)\?\)\.into\(\);'),
        ('len', rf'let rdatalen=u16::from_be_bytes\(data\[{P}(?:\+(\d+))?\.\.{P}\+(\d+)\]\.try_into\(\)\?\)as usize;'),
        ('guard2', rf'if ?{P}\+(\d+)\+rdatalen>data\.len\(\)' + ERRRET),
        ('opt', rf'if rdatatype==TYPE::OPT\{{return Ok\(RData::OPT\(OPT::parse\(&data\[\.\.{P}\+rdatalen\+(\d+)\],position\)\?\)\);?\}}'),
        ('adv', rf'{P}\+=(\d+);'),
        ('empty', r'if rdatalen==0\{return Ok\(RData::Empty\(rdatatype\)\);?\}'),
        ('end', rf'let rdata_end={P}\+rdatalen;'),
        ('typed', r'let rdata=parse_rdata\(&data\[\.\.rdata_end\],position,rdatatype\)\?;'),
        ('setpos', rf'{P}=rdata_end;'),
        ('ret', r'Ok\(rdata\)')])
    order = [k for st in sts for k, ms in got.items() if any(m.string == st for m in ms)]
    # the two reads commute; everything else is in this order
    norm = ['type' if k in ('type', 'len') else k for k in order]
    if norm != ['guard', 'type', 'type', 'guard2', 'opt', 'adv', 'empty', 'end', 'typed', 'setpos', 'ret']: refuse(W, f"statement order {order}")
    t, l = got['type'][0], got['len'][0]
    return {'guard': num(got['guard'][0].group(1)), 'type': (off(t.group(1)), num(t.group(2))), 'rdlen': (off(l.group(1)), num(l.group(2))),
            'guard2': num(got['guard2'][0].group(1)), 'optEnd': num(got['opt'][0].group(1)), 'advance': num(got['adv'][0].group(1))}

# ------------------------------------------------------------------ packet.rs
def packet_parse(text):
    W = 'packet.rs: Packet::parse'
    body = fn_body(text, 'parse', W, r"data:&'a ?\[u8\]\)")
    sts = statements(body)
    sec = r'let(?: mut)? (\w+)(?::Vec<ResourceRecord>)?=Self::parse_section\(data,&mut offset,header_buffer::(\w+)\(data\)\?\)\?;'
    got = only(W, sts, [
        ('header', r'let mut header=Header::parse\(data\)\?;'),
        ('offset', r'let mut offset=(\d+);'),
        ('section', sec),
        ('opt', r'header\.extract_info_from_opt_rr\(additional_records\.iter\(\)\.position\(\|rr\|rr\.rdata\.type_code\(\)==crate::TYPE::OPT\)\.map\(\|i\|additional_records\.remove\(i\)\),?\);'),
        ('ret', r'Ok\(Self\{header,questions,answers,name_servers,additional_records,?\}\)')])
    one(W, got, 'header'); one(W, got, 'opt'); one(W, got, 'ret')
    secs = [(m.group(1), m.group(2)) for m in got['section']]
    if sts.index(got['opt'][0].string) < max(sts.index(m.string) for m in got['section']): refuse(W, "OPT lifted before the sections are parsed")
    ps = fn_body(text, 'parse_section', W)
    if not re.match(r'let mut section_items=Vec::new\(\);for _ in 0\.\.items_count\{section_items\.push\(T::parse\(data,offset\)\?\);\}Ok\(section_items\)$', ps):
        refuse(W, f"parse_section: {ps[:200]}")
    return {'start': num(one(W, got, 'offset').group(1)), 'sections': secs}

def packet_write(text):
    W = 'packet.rs: write_to / write_compressed_to / write_header'
    out = {}
    for fn, call in (('write_to', r'e\.write_to\(out\)\?;'), ('write_compressed_to', r'e\.write_compressed_to\(out,&mut name_refs\)\?;')):
        body = fn_body(text, fn, W, r'&self,out:&mut T\)')
        order = []
        for st in statements(body):
            m = re.match(r'for e in&self\.(\w+)\{' + call + r'\}$', st)
            if m: order.append(m.group(1)); continue
            if st == 'self.write_header(out)?;': order.append('header'); continue
            if st == 'if let Some(rr)=self.header.opt_rr(){rr.write_to(out)?;}': order.append('opt'); continue
            # the final flush is part of the contract (a writer that defers its work - BufWriter - holds the whole message
            # until then): it is recorded as the last step, and `packet_write_order` demands it
            if st == 'out.flush()?;': order.append('flush'); continue
            if st in ('Ok(())', 'let start=out.stream_position()?;', 'let out=&mut MessageWriter{inner:out,start};',
                      'let mut name_refs=HashMap::new();'): continue
            refuse(W, f"fn {fn}: unrecognised statement: {st[:160]}")
        out[fn] = order
    hb = fn_body(text, 'write_header', W)
    m = re.match(r'self\.header\.write_to\(out,self\.(\w+)\.len\(\)as u16,self\.(\w+)\.len\(\)as u16,self\.(\w+)\.len\(\)as u16,'
                 r'self\.(\w+)\.len\(\)as u16\+u16::from\(self\.header\.opt\.is_some\(\)\),?\)$', hb)
    if not m: refuse(W, f"write_header: {hb[:200]}")
    out['counts'] = list(m.groups())
    return out

# ------------------------------------------------------------------ rdata/macros.rs: the arms of RData::type_code / into_owned
def rdata_enum_arms(text):
    W = 'rdata/macros.rs: RData::type_code / RData::into_owned'
    tc = fn_body(text, 'type_code', W, r'&self\)')
    m = re.match(r'match self\{\$\(RData::\$i\(_\)=>TYPE::\$i,\)\+RData::NULL\((\w+),_\)=>TYPE::from\(\*(\w+)\),RData::Empty\((\w+)\)=>\*(\w+),?\}$', tc)
    if not m or m.group(1) != m.group(2) or m.group(3) != m.group(4): refuse(W, f"type_code: {tc[:200]}")
    io = block_after(text, r"\bfn into_owned<'b>\(self\)->RData<'b>", W)
    m = re.match(r'match self\{\$\(RData::\$i\((\w+)\)=>RData::\$i\((\w+)\.into_owned\(\)\),\)\+'
                 r'RData::NULL\((\w+),(\w+)\)=>RData::NULL\((\w+),(\w+)\.into_owned\(\)\),RData::Empty\((\w+)\)=>RData::Empty\((\w+)\),?\}$', io)
    if not m or m.group(1) != m.group(2) or m.group(3) != m.group(5) or m.group(4) != m.group(6) or m.group(7) != m.group(8):
        refuse(W, f"into_owned: {io[:240]}")
    return {'typeCode': ['variant-constant', 'from-carried-code', 'carried-type'], 'intoOwned': ['same-variant-owned', 'same-code-owned-data', 'same-type']}

# ------------------------------------------------------------------ mod.rs: QTYPE / QCLASS to their codes (what the writers emit)
def qcodes_out(text):
    W = 'mod.rs: impl From<QTYPE> for u16 / impl From<QCLASS> for u16'
    out = {}
    for ty, inner in (('QTYPE', r'ty\.into\(\)'), ('QCLASS', r'class as u16')):
        b = block_after(text, rf'impl From<{ty}>for u16', W)
        m = re.match(rf'fn from\(val:{ty}\)->Self\{{match val\{{(.*)\}}\}}$', b)
        if not m: refuse(W, f"{ty}: {b[:200]}")
        arms = []
        for arm in [a for a in m.group(1).split(',') if a]:
            a = re.match(rf'{ty}::(\w+)(?:\((\w+)\))?=>(.+)$', arm)
            if not a: refuse(W, f"{ty}: arm not recognised: {arm[:80]}")
            if a.group(2):
                if not re.fullmatch(inner.replace('ty', a.group(2)).replace('class', a.group(2)), a.group(3)): refuse(W, f"{ty}: wrapper arm not a plain conversion of its payload: {arm[:80]}")
                arms.append((a.group(1), 'inner'))
            else:
                arms.append((a.group(1), str(num(a.group(3)))))
        out[ty] = arms
    return out

# ------------------------------------------------------------------ packet.rs: MessageWriter (positions relative to the message)
def message_writer(text):
    W = 'packet.rs: impl Write / Seek for MessageWriter'
    wi = block_after(text, r'impl<T:Write>Write for MessageWriter<\'_,T>', W)
    w = fn_body(wi, 'write', W)
    f = fn_body(wi, 'flush', W)
    si = block_after(text, r'impl<T:Seek>Seek for MessageWriter<\'_,T>', W)
    sk = fn_body(si, 'seek', W)
    out = []
    out.append('forward' if w == 'self.inner.write(buf)' else refuse(W, f"write: {w[:120]}"))
    out.append('forward' if f == 'self.inner.flush()' else refuse(W, f"flush: {f[:120]}"))
    m = re.match(r'let pos=match pos\{std::io::SeekFrom::Start\((\w+)\)=>std::io::SeekFrom::Start\(self\.start\+(\w+)\),other=>other,\};'
                 r'Ok\(self\.inner\.seek\(pos\)\?\.saturating_sub\(self\.start\)\)$', sk)
    if not m or m.group(1) != m.group(2): refuse(W, f"seek: {sk[:200]}")
    out.append('start-plus-offset/minus-start')
    return out

# ------------------------------------------------------------------ simple-mdns: ExpirationInfo::new
def expiration(text):
    W = 'simple-mdns/src/resource_record_manager.rs: ExpirationInfo::new'
    impl = block_after(text, r'impl ExpirationInfo\{', W)
    body = fn_body(impl, 'new', W)
    m = re.match(r'let ttl=ttl as u64;let added=Instant::now\(\);let expire_at=added\+Duration::from_secs\(ttl\);'
                 r'let refresh_at=match ttl\{0=>expire_at,ttl if ttl<(\d+)=>added\+Duration::from_secs\(ttl/(\d+)\),'
                 r'ttl=>added\+Duration::from_secs\(ttl/(\d+)\*(\d+)\),\};Self\{expire_at,refresh_at,?\}$', body)
    if not m: refuse(W, f"body not recognised: {body[:300]}")
    return {'shortBelow': int(m.group(1)), 'shortDiv': int(m.group(2)), 'longDiv': int(m.group(3)), 'longMul': int(m.group(4))}

# ------------------------------------------------------------------ simple-mdns: what the responder loops do when send_to fails
def responder_send(text, where, aw):
    W = f'{where}: responder_loop'
    body = fn_body(text, 'responder_loop', W)
    call = r'sender_socket\.send_to\(&reply,reply_addr\)' + (r'\.await' if aw else '')
    if len(re.findall(call, body)) != 1: refuse(W, "expected exactly one `sender_socket.send_to(&reply, reply_addr)`")
    if re.search(call + r'\?;', body): return 'propagate'
    if re.search(r'if let Err\((\w+)\)=' + call + r'\{log::(error|warn)!\([^;{}]*\);\}', body): return 'log'
    refuse(W, "treatment of the result of send_to not recognised")

# ------------------------------------------------------------------ simple-mdns: the record store
def store_add(text):
    W = 'simple-mdns/src/resource_record_manager.rs: add_authoritative_resource / add_cached_resource / remove_resource_record / clear'
    impl = block_after(text, r"impl<'a>ResourceRecordManager<'a>\{", W)
    kind = lambda k: rf'ResourceRecordType::{k}'
    ins = lambda v, k: rf'{v}\.insert\(resource,{k}\);'
    fresh = lambda k: r'None=>\{let mut (?P<n>\w+)=HashMap::new\(\);' + ins('(?P=n)', k) + r'self\.resources\.insert\(key,(?P=n)\);\}'
    b = fn_body(impl, 'add_authoritative_resource', W)
    if not re.match(r'let key=get_key\(&resource\.name\);match self\.resources\.get_mut\(&key\)\{Some\((?P<v>\w+)\)=>\{' + ins('(?P=v)', kind('Authoritative')) + r'\}' + fresh(kind('Authoritative')) + r'\}$', b):
        refuse(W, f"add_authoritative_resource: {b[:200]}")
    b = fn_body(impl, 'add_cached_resource', W)
    c = kind(r'Cached\(exp_info\)')
    m = re.match(r'let key=get_key\(&resource\.name\);let ttl=if resource\.cache_flush\{(\d+)\}else\{resource\.ttl\};let exp_info=ExpirationInfo::new\(ttl\);'
                 r'match self\.resources\.get_mut\(&key\)\{Some\((?P<v>\w+)\)=>\{(?P<some>.*)\}' + fresh(c) + r'\}$', b)
    if not m: refuse(W, f"add_cached_resource: {b[:300]}")
    some = m.group('some'); v = m.group('v')
    if re.fullmatch(ins(v, c), some): guard = 'always'
    elif re.fullmatch(rf'if!matches!\({v}\.get\(&resource\),Some\({kind("Authoritative")}\)\)\{{' + ins(v, c) + r'\}', some): guard = 'unless-authoritative'
    else: refuse(W, f"add_cached_resource: the arm for a known name is not recognised: {some[:200]}")
    b = fn_body(impl, 'remove_resource_record', W)
    if not re.match(r'let key=get_key\(&resource_record\.name\);self\.resources\.get_mut\(&key\)\.map\(\|(\w+)\|\1\.remove\(resource_record\)\);$', b):
        refuse(W, f"remove_resource_record: {b[:200]}")
    b = fn_body(impl, 'clear', W)
    if b != 'self.resources=Trie::new();': refuse(W, f"clear: {b[:100]}")
    k = block_after(text, r'\bfn get_key\(name:&Name\)->Vec<u8>', W)
    if not re.match(r'name\.get_labels\(\)\.iter\(\)\.rev\(\)\.flat_map\(\|(\w+)\|\{std::iter::once\(\1\.len\(\)as u8\)\.chain\(\1\.as_bytes\(\)\.iter\(\)\.copied\(\)\)\}\)\.collect\(\)$', k):
        refuse(W, f"get_key: {k[:200]}")
    return {'flushTtl': int(m.group(1)), 'guard': guard, 'key': 'root-first-length-prefixed'}

def store_filter(text):
    W = 'simple-mdns/src/resource_record_manager.rs: DomainResourceFilter / should_refresh / get_next_refresh'
    impl = block_after(text, r'impl DomainResourceFilter\{', W)
    ctors = {}
    for name, params in (('authoritative', r'include_subdomains:bool'), ('cached', ''), ('all', '')):
        b = block_after(impl, rf'\bfn {name}\({params}\)->Self', W)
        m = re.match(r'Self\{((?:\w+:\w+,?)+)\}$', b)
        if not m: refuse(W, f"{name}: {b[:120]}")
        f = dict(x.split(':') for x in m.group(1).strip(',').split(','))
        if set(f) != {'subdomain', 'authoritative', 'cached'}: refuse(W, f"{name}: fields {sorted(f)}")
        vals = []
        for k in ('subdomain', 'authoritative', 'cached'):
            v = f[k]
            if v == 'include_subdomains' and name == 'authoritative': v = 'param'
            if v not in ('true', 'false', 'param'): refuse(W, f"{name}: value of {k} not recognised: {v}")
            vals.append(v)
        ctors[name] = vals
    b = fn_body(impl, 'match_filter', W)
    m = re.match(r'match resource_type\{ResourceRecordType::Authoritative=>self\.(\w+),ResourceRecordType::Cached\(exp_info\)=>\{self\.(\w+)&&exp_info\.(\w+)(>=|>|<=|<)Instant::now\(\)\}\}$', b)
    if not m: refuse(W, f"match_filter: {b[:200]}")
    mf = [m.group(1), m.group(2), m.group(3), m.group(4)]
    rt = block_after(text, r'impl ResourceRecordType\{', W)
    b = fn_body(rt, 'should_refresh', W)
    m = re.match(r'match self\{ResourceRecordType::Authoritative=>(true|false),ResourceRecordType::Cached\(exp_info\)=>exp_info\.(\w+)(>=|>|<=|<)Instant::now\(\),?\}$', b)
    if not m: refuse(W, f"should_refresh: {b[:200]}")
    sr = [m.group(1), m.group(2), m.group(3)]
    mgr = block_after(text, r"impl<'a>ResourceRecordManager<'a>\{", W)
    b = fn_body(mgr, 'get_next_refresh', W)
    m = re.match(r'self\.resources\.iter\(\)\.flat_map\(\|\(_,(\w+)\)\|\{\1\.values\(\)\.filter_map\(\|(\w+)\|\{if!\2\.should_refresh\(\)\{return None;\}match \2\{ResourceRecordType::Authoritative=>None,ResourceRecordType::Cached\(exp_info\)=>Some\(exp_info\.(\w+)\),?\}\}\)\}\)\.(min_by\(\|a,b\|a\.cmp\(b\)\)|min\(\))$', b)
    if not m: refuse(W, f"get_next_refresh: {b[:300]}")
    return {'ctors': ctors, 'matchFilter': mf, 'shouldRefresh': sr, 'nextRefresh': [m.group(3), 'min']}

def store_lookup(text):
    W = 'simple-mdns/src/resource_record_manager.rs: get_domain_resources'
    mgr = block_after(text, r"impl<'a>ResourceRecordManager<'a>\{", W)
    b = block_after(mgr, r"\bfn get_domain_resources<'b>\(&'a self,name:&'b Name,filter:DomainResourceFilter,?\)->impl Iterator<Item=impl Iterator<Item=&'a ResourceRecord<'a>>>", W)
    m = re.match(r"let key=get_key\(name\);let (?P<f>\w+)=\|resource_pair:\(&'a ResourceRecord,&'a ResourceRecordType,?\)\|->Option<&ResourceRecord>\{let\(resource,resource_type\)=resource_pair;"
                 r"if filter\.match_filter\(resource_type\)\{Some\(resource\)\}else\{None\}\};let mut found:Vec<Vec<&'a ResourceRecord>>=Vec::new\(\);"
                 r"if filter\.subdomain\{if let Some\(trie\)=self\.resources\.subtrie\(&key\)\{found=trie\.iter\(\)\.map\(\|\(_\w*,(?P<r>\w+)\)\|\{(?P=r)\.iter\(\)\.filter_map\((?P=f)\)\.collect\(\)\}\)\.collect\(\);\};\}"
                 r"else if let Some\((?P<r2>\w+)\)=self\.resources\.get\(&key\)\{found=vec!\[(?P=r2)\.iter\(\)\.filter_map\((?P=f)\)\.collect\(\)\]\}"
                 r"found\.into_iter\(\)\.filter\(\|(?P<g>\w+)\|!(?P=g)\.is_empty\(\)\)\.map\(\|inner\|inner\.into_iter\(\)\)$", b)
    if not m: refuse(W, f"body not recognised: {b[:300]}")
    return ['subtrie-when-subdomain', 'get-otherwise', 'drop-empty-groups']

# ------------------------------------------------------------------ simple-mdns: build_reply
def build_reply(text):
    W = 'simple-mdns/src/lib.rs: build_reply'
    b = block_after(text, r"\bfn build_reply<'b>\(", W)
    m = re.match(r'let mut reply_packet=Packet::new_reply\(packet\.id\(\)\);let mut unicast_response=false;let mut additional_records=HashSet::new\(\);'
                 r'for question in packet\.questions\.iter\(\)\{if question\.unicast_response\{unicast_response=(?:question\.unicast_response|true);?\}'
                 r'for d_resources in resources\.get_domain_resources\(&question\.qname,DomainResourceFilter::authoritative\((true|false)\),?\)\{'
                 r'for answer in d_resources\.filter\(\|r\|(?P<ans>[^|{}]*)\)\{reply_packet\.answers\.push\(answer\.clone\(\)\);'
                 r'if let RData::SRV\(srv\)=&answer\.rdata\{let target=resources\.get_domain_resources\(&srv\.target,DomainResourceFilter::authoritative\((true|false)\),?\)'
                 r'\.flatten\(\)\.filter\(\|r\|\{(?P<add>[^{}]*)\}\)\.cloned\(\);additional_records\.extend\(target\);\}\}\}\}'
                 r'for additional_record in additional_records\{reply_packet\.additional_records\.push\(additional_record\);\}'
                 r'if!reply_packet\.answers\.is_empty\(\)\{Some\(\(reply_packet,unicast_response\)\)\}else\{None\}$', b)
    if not m: refuse(W, f"body not recognised: {b[:400]}")
    ans = sorted(m.group('ans').split('&&'))
    if ans != ['r.match_qclass(question.qclass)', 'r.match_qtype(question.qtype)']: refuse(W, f"answer filter not recognised: {m.group('ans')}")
    a = re.match(r'\(((?:r\.match_qtype\(TYPE::\w+\.into\(\)\)(?:\|\|)?)+)\)&&r\.match_qclass\(question\.qclass\)$', m.group('add'))
    if not a: refuse(W, f"additional-record filter not recognised: {m.group('add')}")
    types = re.findall(r'TYPE::(\w+)', a.group(1))
    return {'answerSub': m.group(1), 'targetSub': m.group(3), 'types': types}

# ------------------------------------------------------------------ simple-mdns: what a received response adds to the store and reports
def ingest(text, where, aw):
    W = f'{where}: add_response_to_resources' + (' / collect_response' if aw else '')
    body = fn_body(text, 'collect_response' if aw else 'add_response_to_resources', W)
    m = re.search(r'packet\.(\w+)\.into_iter\(\)\.chain\(packet\.(\w+)\)\.filter\(\|aw\|([^|{}]*?)\)\.map\(\|r\|r\.into_owned\(\)\)', body)
    if not m or len(re.findall(r'packet\.', body)) != 2: refuse(W, "the records taken from the packet are not `answers` chained with another section, filtered, made owned")
    known = {'aw.name.ne(full_name)': 'not-the-own-name', 'aw.name.is_subdomain_of(service_name)': 'below-the-service'}
    conj = m.group(3).split('&&')
    if any(c not in known for c in conj): refuse(W, f"filter not recognised: {m.group(3)}")
    if len(re.findall(r'let mut owners:Vec<&Name>=Vec::new\(\);for resource in&resources\{if!owners\.contains\(&&resource\.name\)\{owners\.push\(&resource\.name\);\}\}', body)) != 1:
        refuse(W, "the list of owner names is not built as expected")
    if len(re.findall(r'for owner in owners\{', body)) != 1 or len(re.findall(r'InstanceInformation::from_records\(service_name,resources\.iter\(\)\.filter\(\|r\|&r\.name==owner\),?\)', body)) != 1:
        refuse(W, "one report per owner name expected")
    n = len(re.findall(r'for resource in resources\{owned_resources\.add_cached_resource\(resource\);\}', body))
    if n != (1 if aw else 2) or len(re.findall(r'add_cached_resource', body)) != n: refuse(W, "every kept record is expected to be cached, whether or not there is a listener")
    if aw:
        outer = fn_body(text, 'add_response_to_resources', W)
        if not re.match(r'let reports=collect_response\(packet,service_name,full_name,owned_resources,on_discovery\.is_some\(\),?\);send_reports\(reports,on_discovery\)\.await$', outer):
            refuse(W, f"add_response_to_resources: {outer[:200]}")
    return {'sections': [m.group(1), m.group(2)], 'filter': sorted(known[c] for c in conj)}

def from_records(text):
    W = 'simple-mdns/src/instance_information.rs: InstanceInformation::from_records'
    b = fn_body(text, 'from_records', W)
    m = re.match(r'let mut ip_addresses:HashSet<IpAddr>=Default::default\(\);let mut ports=HashSet::new\(\);let mut attributes=HashMap::new\(\);let mut instance_name:Option<String>=Default::default\(\);'
                 r'for resource in records\{if instance_name\.is_none\(\)\{instance_name=resource\.name\.without\(service_name\)\.map\(\|(\w+)\|\1\.to_string\(\)\);\}'
                 r'match&resource\.rdata\{(?P<arms>.*)_=>\{\}\}\}instance_name\.map\(\|instance_name\|InstanceInformation\{instance_name,ip_addresses,ports,attributes,?\}\)$', b)
    if not m: refuse(W, f"body not recognised: {b[:300]}")
    R = r'(?:simple_dns::rdata::)?RData::'
    shapes = [(R + r'A\((\w+)\)=>\{ip_addresses\.insert\(std::net::Ipv4Addr::from\(\1\.address\)\.into\(\)\);\}', ('A', 'ipv4')),
              (R + r'AAAA\((\w+)\)=>\{ip_addresses\.insert\(std::net::Ipv6Addr::from\(\1\.address\)\.into\(\)\);\}', ('AAAA', 'ipv6')),
              (R + r'TXT\((\w+)\)=>attributes\.extend\(\1\.attributes\(\)\.into_iter\(\)\.filter\(\|\(key,_\)\|!key\.is_empty\(\)\),?\),', ('TXT', 'attributes-with-a-key')),
              (R + r'TXT\((\w+)\)=>attributes\.extend\(\1\.attributes\(\)\),', ('TXT', 'attributes')),
              (R + r'SRV\((\w+)\)=>\{ports\.insert\(\1\.port\);\}', ('SRV', 'port'))]
    rest, arms = m.group('arms'), []
    while rest:
        for rx, v in shapes:
            a = re.match(rx, rest)
            if a:
                arms.append(v); rest = rest[a.end():]; break
        else:
            refuse(W, f"arm not recognised: {rest[:120]}")
    if len({a for a, _ in arms}) != len(arms): refuse(W, "a record type has two arms")
    return arms

# ------------------------------------------------------------------ simple-mdns: the records an instance is advertised with
def into_records(inst_text, conv_text):
    W = 'simple-mdns/src/instance_information.rs: into_records; conversion_utils.rs'
    b = fn_body(inst_text, 'into_records', W)
    m = re.match(r'let mut records=Vec::new\(\);(?P<steps>.*)Ok\(records\)$', b)
    if not m: refuse(W, f"into_records: {b[:200]}")
    shapes = [(r'for (\w+) in self\.ip_addresses\{records\.push\(ip_addr_to_resource_record\(service_name,\1,ttl\)\);\}', 'addresses'),
              (r'for (\w+) in self\.ports\{records\.push\(port_to_srv_record\(service_name,\1,ttl\)\);\}', 'ports'),
              (r'records\.push\(hashmap_to_txt\(service_name,self\.attributes,ttl\)\?\);', 'attributes')]
    rest, order = m.group('steps'), []
    while rest:
        for rx, v in shapes:
            a = re.match(rx, rest)
            if a:
                order.append(v); rest = rest[a.end():]; break
        else:
            refuse(W, f"into_records: step not recognised: {rest[:120]}")
    if sorted(order) != ['addresses', 'attributes', 'ports']: refuse(W, f"into_records: steps {order}")
    # (the order of the three groups within the list of records is not part of what is advertised: any order of the same
    # three steps reads as the same item)
    order = ['addresses', 'ports', 'attributes']
    new = lambda rd: r'ResourceRecord::new\(name\.clone\(\),CLASS::(\w+),rr_ttl,' + rd + r',?\)'
    b = block_after(conv_text, r"\bfn ip_addr_to_resource_record<'a>\(", W)
    m = re.match(r'match addr\{IpAddr::V4\(ip\)=>\{' + new(r'RData::(\w+)\(\2::from\(ip\)\)') + r'\}IpAddr::V6\(ip\)=>\{' + new(r'RData::(\w+)\(\4::from\(ip\)\)') + r'\}\}$', b)
    if not m: refuse(W, f"ip_addr_to_resource_record: {b[:200]}")
    v4, v6 = (m.group(2), m.group(1)), (m.group(4), m.group(3))
    b = block_after(conv_text, r"\bfn port_to_srv_record<'a>\(", W)
    m = re.match(new(r'RData::SRV\(SRV\{((?:\w+(?::[^,{}]+)?,?)+)\}\)') + '$', b)
    if not m: refuse(W, f"port_to_srv_record: {b[:200]}")
    f = dict((x.split(':', 1) + [x])[:2] for x in m.group(2).strip(',').split(','))
    if set(f) != {'port', 'priority', 'target', 'weight'} or f['port'] != 'port' or f['target'] != 'name.clone()': refuse(W, f"port_to_srv_record: fields {f}")
    srv = (m.group(1), str(num(f['priority'])), str(num(f['weight'])))
    b = block_after(conv_text, r"\bfn hashmap_to_txt<'a>\(", W)
    m = re.match(r'let txt=TXT::try_from\(attributes\)\?;Ok\(' + new(r'RData::TXT\(txt\)') + r'\)$', b)
    if not m: refuse(W, f"hashmap_to_txt: {b[:200]}")
    return {'order': order, 'v4': list(v4), 'v6': list(v6), 'srv': list(srv), 'txtClass': m.group(1)}

# ------------------------------------------------------------------ name.rs: the loop of Name::parse
def name_parse(text):
    W = 'name.rs: Name::parse'
    b = block_after(text, r"\bfn parse\(data:&'a\[u8\],position:&mut usize\)->crate::Result<Self>where Self:Sized,?", W)
    E = r'\{return Err\(crate::SimpleDnsError::\w+\);\}'
    m = re.match(r'let mut following_compression_pointer=false;let mut labels=Vec::new\(\);let mut pointer_position=\*position;let mut name_size=(?P<size0>\d+)usize;'
                 r'loop\{if\*position>=data\.len\(\)\|\|pointer_position>=data\.len\(\)' + E +
                 r'if name_size(?P<sizeop>>=|>)MAX_NAME_LENGTH' + E +
                 r'match data\[pointer_position\]\{0=>\{\*position\+=1;break;\}'
                 r'len if len&POINTER_MASK==POINTER_MASK=>\{if!following_compression_pointer\{\*position\+=(?P<posptr>\d+);\}following_compression_pointer=true;'
                 r'if pointer_position\+(?P<ptrneed>\d+)(?P<ptrop>>=|>)data\.len\(\)' + E +
                 r'let pointer=\(u16::from_be_bytes\(data\[pointer_position\.\.pointer_position\+2\]\.try_into\(\)\?,?\)&!POINTER_MASK_U16\)as usize;'
                 r'if pointer(?P<backop>>=|>)pointer_position' + E + r'pointer_position=pointer;\}'
                 r'len=>\{name_size\+=(?P<sizeadd>\d+)\+len as usize;if pointer_position\+(?P<labneed>\d+)\+len as usize(?P<labop>>=|>)data\.len\(\)' + E +
                 r'if len as usize(?P<maxop>>=|>)MAX_LABEL_LENGTH' + E +
                 r'labels\.push\(Label::new_unchecked\(&data\[pointer_position\+1\.\.pointer_position\+1\+len as usize\],?\)\);'
                 r'if!following_compression_pointer\{\*position\+=len as usize\+(?P<poslab>\d+);\}pointer_position\+=len as usize\+(?P<pplab>\d+);\}\}\}Ok\(Self\{labels\}\)$', b)
    if not m: refuse(W, f"body not recognised: {b[:300]}")
    g = m.groupdict()
    return {'nums': [int(g[k]) for k in ('size0', 'ptrneed', 'sizeadd', 'labneed', 'poslab', 'pplab', 'posptr')],
            'ops': [g[k] for k in ('sizeop', 'ptrop', 'backop', 'labop', 'maxop')]}

# ------------------------------------------------------------------ name.rs: the two writers of a name
def name_write(text):
    W = 'name.rs: Name::plain_append / compress_append'
    lab = r'out\.write_all\(&\[label\.len\(\)as u8\]\)\?;out\.write_all\(&label\.data\)\?;'
    b = fn_body(text, 'plain_append', W)
    if not re.match(r'for label in self\.iter\(\)\{' + lab + r'\}out\.write_all\(&\[0\]\)\?;Ok\(\(\)\)$', b): refuse(W, f"plain_append: {b[:200]}")
    b = fn_body(text, 'compress_append', W)
    m = re.match(r'for\(i,label\)in self\.iter\(\)\.enumerate\(\)\{match name_refs\.entry\(&self\.labels\[i\.\.\]\)\{'
                 r'std::collections::hash_map::Entry::Occupied\(e\)=>\{let p=\*e\.get\(\)as u16;out\.write_all\(&\(p\|(\w+)\)\.to_be_bytes\(\)\)\?;return Ok\(\(\)\);\}'
                 r'std::collections::hash_map::Entry::Vacant\(e\)=>\{let position=out\.stream_position\(\)\?as usize;if position(<=|<|>=|>)(\w+)\{e\.insert\(position\);\}' + lab + r'\}\}\}'
                 r'out\.write_all\(&\[0\]\)\?;Ok\(\(\)\)$', b)
    if not m: refuse(W, f"compress_append: {b[:300]}")
    return [m.group(1), m.group(2), m.group(3)]

# ------------------------------------------------------------------ name.rs: how names and labels are shown
def name_display(text):
    W = 'name.rs: Display for Label / Display for Name'
    b = block_after(text, r"impl<'a>Display for Label<'a>\{fn fmt\(&self,f:&mut std::fmt::Formatter<'_>\)->std::fmt::Result", W)
    if not re.match(r'f\.write_str\(&String::from_utf8_lossy\(&self\.data\)\)$', b): refuse(W, f"Display for Label: {b[:200]}")
    b = block_after(text, r"impl<'a>Display for Name<'a>\{fn fmt\(&self,f:&mut std::fmt::Formatter<'_>\)->std::fmt::Result", W)
    m = re.match(r'for\(i,label\)in self\.iter\(\)\.enumerate\(\)\{if i!=0\{f\.write_str\("((?:\\.|[^"\\])*)"\)\?;\}f\.write_fmt\(format_args!\("\{\}",label\)\)\?;\}Ok\(\(\)\)$', b)
    if not m: refuse(W, f"Display for Name: {b[:200]}")
    return {'label': 'utf8-lossy', 'sep': m.group(1)}

# ------------------------------------------------------------------ rdata/txt.rs: the text and attribute API
def byte_lit(x, W):
    m = re.fullmatch(r"b?'(\\?.)'", x)
    if not m or (len(m.group(1)) == 2 and m.group(1)[1] not in "\\'"): refuse(W, f"literal not recognised: {x}")
    return ord(m.group(1)[-1])

def txt_api(text):
    W = 'rdata/txt.rs: attributes / long_attributes / TryFrom<HashMap> / TryFrom<&str>'
    b = fn_body(text, 'attributes', W, r'&self\)')
    m = re.match(r"let mut attributes=HashMap::new\(\);for char_str in&self\.strings\{let mut splited=char_str\.data\.splitn\(2,\|c\|\*c==(b'(?:\\.|[^'\\])')\);"
                 r"let key=match splited\.next\(\)\{Some\(key\)=>match std::str::from_utf8\(key\)\{Ok\(key\)=>key\.to_owned\(\),Err\(_\)=>continue,\},None=>continue,\};"
                 r"let value=match splited\.next\(\)\{Some\(value\)if!value\.is_empty\(\)=>match std::str::from_utf8\(value\)\{Ok\(v\)=>Some\(v\.to_owned\(\)\),Err\(_\)=>Some\(String::new\(\)\),\},Some\(_\)=>Some\(String::new\(\)\),_=>None,\};"
                 r"attributes\.(entry\(key\)\.or_insert\(value\)|insert\(key,value\));\}attributes$", b)
    if not m: refuse(W, f"attributes: {b[:300]}")
    attr_sep, attr_ins = byte_lit(m.group(1), W), ('or_insert' if m.group(2).startswith('entry') else 'insert')
    b = fn_body(text, 'long_attributes', W)
    m = re.match(r"let mut attributes=HashMap::new\(\);let full_string:String=match self\.try_into\(\)\{Ok\(string\)=>string,Err\(err\)=>return Err\(crate::SimpleDnsError::InvalidUtf8String\(err\)\),\};"
                 r"let parts=full_string\.split\(('(?:\\.|[^'\\])')\);for part in parts\{let key_value=part\.splitn\(2,('(?:\\.|[^'\\])')\)\.collect::<Vec<&str>>\(\);let key=key_value\[0\];"
                 r"let value=match key_value\.len\(\)>1\{true=>Some\(key_value\[1\]\.to_owned\(\)\),_=>None,\};if!key\.is_empty\(\)\{attributes\.(entry\(key\.to_owned\(\)\)\.or_insert\(value\)|insert\(key\.to_owned\(\),value\));\}\}Ok\(attributes\)$", b)
    if not m: refuse(W, f"long_attributes: {b[:300]}")
    long_sep, long_kv, long_ins = byte_lit(m.group(1), W), byte_lit(m.group(2), W), ('or_insert' if m.group(3).startswith('entry') else 'insert')
    b = block_after(text, r"impl<'a>TryFrom<HashMap<String,Option<String>>>for TXT<'a>\{type Error=crate::SimpleDnsError;fn try_from\(value:HashMap<String,Option<String>>\)->Result<Self,Self::Error>", W)
    m = re.match(r'let mut txt=TXT::new\(\);for\(key,value\)in value\{match value\{Some\(value\)=>\{txt\.add_char_string\(format!\("\{\}(.)\{\}",&key,&value\)\.try_into\(\)\?\);\}None=>txt\.add_char_string\(key\.try_into\(\)\?\),\}\}Ok\(txt\)$', b)
    if not m: refuse(W, f"TryFrom<HashMap>: {b[:300]}")
    map_sep = ord(m.group(1))
    b = block_after(text, r"impl<'a>TryFrom<&'a str>for TXT<'a>\{type Error=crate::SimpleDnsError;fn try_from\(value:&'a str\)->Result<Self,Self::Error>", W)
    m = re.match(r'let mut txt=TXT::new\(\);for v in value\.as_bytes\(\)\.chunks\(MAX_CHARACTER_STRING_LENGTH(?:-(\d+))?\)\{txt\.add_char_string\(CharacterString::new\(v\)\?\);\}Ok\(txt\)$', b)
    if not m: refuse(W, f"TryFrom<&str>: {b[:300]}")
    return {'attrSep': attr_sep, 'attrInsert': attr_ins, 'longSep': long_sep, 'longKv': long_kv, 'longInsert': long_ins, 'mapSep': map_sep, 'chunkMinus': int(m.group(1) or 0)}

# ------------------------------------------------------------------ simple-mdns: receive buffers, and a reply that cannot be serialised
def service_shape(texts):
    """texts: {'rs','ra','ds','da'} compact sources of the two responders and the two discovery services"""
    W = 'simple-mdns: the receive buffers of the service loops; responder_loop and an unserialisable reply'
    sizes = []
    for k, fn in (('rs', 'responder_loop'), ('ra', 'responder_loop'), ('ds', 'receive_packets_loop'), ('da', 'execution_loop')):
        if texts[k] is None: refuse(W, f"{k}: file not found")
        body = fn_body(texts[k], fn, W)
        m = re.findall(r'let mut recv_buffer=\[0u8;(\w+)\];', body)
        if len(m) != 1 or not re.fullmatch(r'\d+', m[0]): refuse(W, f"{k}: the receive buffer of {fn} is not one array of a literal size")
        if len(re.findall(r'recv_from\(&mut recv_buffer\)', body)) != 1: refuse(W, f"{k}: {fn} does not receive into that buffer exactly once")
        sizes.append(int(m[0]))
    build = []
    for k, aw in (('rs', False), ('ra', True)):
        body = fn_body(texts[k], 'responder_loop', W)
        call = r'reply_packet\.build_bytes_vec_compressed\(\)'
        if len(re.findall(call, body)) != 1: refuse(W, f"{k}: expected exactly one build_bytes_vec_compressed of the reply")
        if re.search(r'let reply=' + call + r'\?;', body): build.append('propagate')
        elif re.search(r'let reply=match ' + call + r'\{Ok\((\w+)\)=>\1,Err\((\w+)\)=>\{log::(error|warn)!\([^;{}]*\);continue;\}\};', body): build.append('log')
        else: refuse(W, f"{k}: treatment of a reply that cannot be serialised not recognised")
    return {'buffers': sizes, 'build': build}

# ------------------------------------------------------------------ character_string.rs: the codec of a character-string
def charstr_codec(text):
    W = 'character_string.rs: CharacterString::parse / write_to / len / internal_new'
    E = r'\{return Err\((?:crate::)?SimpleDnsError::\w+\);\}'
    b = block_after(text, r"\bfn parse\(data:&'a\[u8\],position:&mut usize\)->crate::Result<Self>where Self:Sized,?", W)
    m = re.match(r'if\*position(>=|>)data\.len\(\)' + E + r'let length=data\[\*position\]as usize;'
                 r'if length(>=|>)MAX_CHARACTER_STRING_LENGTH\|\|length\+\*position\+(\d+)(>=|>)data\.len\(\)' + E +
                 r'let data=&data\[\*position\+(\d+)\.\.\*position\+(\d+)\+length\];\*position\+=length\+(\d+);Ok\(Self\{data:Cow::Borrowed\(data\),?\}\)$', b)
    if not m: refuse(W, f"parse: {b[:300]}")
    w = fn_body(text, 'write_to', W)
    if not re.match(r'out\.write_all\(&\[self\.data\.len\(\)as u8\]\)\?;out\.write_all\(&self\.data\)(?:\.map_err\(crate::SimpleDnsError::from\)|\?;Ok\(\(\)\))$', w): refuse(W, f"write_to: {w[:200]}")
    l = fn_body(text, 'len', W, r'&self\)')
    ml = re.match(r'self\.data\.len\(\)\+(\d+)$', l)
    if not ml: refuse(W, f"len: {l[:100]}")
    n = fn_body(text, 'internal_new', W)
    mn = re.match(r'if data\.len\(\)(>=|>)MAX_CHARACTER_STRING_LENGTH' + E + r'Ok\(Self\{data\}\)$', n)
    if not mn: refuse(W, f"internal_new: {n[:200]}")
    return {'ops': [m.group(1), m.group(2), m.group(4), mn.group(1)], 'nums': [int(m.group(3)), int(m.group(5)), int(m.group(6)), int(m.group(7)), int(ml.group(1))]}

# ------------------------------------------------------------------ packet.rs: the buffer-returning entry points and parse_section
def packet_entry_points(text):
    W = 'packet.rs: build_bytes_vec / build_bytes_vec_compressed / parse_section'
    out = []
    for fn, writer in (('build_bytes_vec', 'write_to'), ('build_bytes_vec_compressed', 'write_compressed_to')):
        b = fn_body(text, fn, W, r'&self\)')
        if re.match(r'let mut out=Cursor::new\(Vec::(?:with_capacity\(\d+\)|new\(\))\);self\.' + writer + r'\(&mut out\)\?;Ok\(out\.into_inner\(\)\)$', b): out.append('fresh-cursor:' + writer)
        elif re.match(r'let mut out=Vec::(?:with_capacity\(\d+\)|new\(\));self\.' + writer + r'\(&mut out\)\?;Ok\(out\)$', b): out.append('fresh-vec:' + writer)
        else: refuse(W, f"{fn}: {b[:200]}")
    b = fn_body(text, 'parse_section', W)
    if not re.match(r'let mut (\w+)=Vec::new\(\);for _ in 0\.\.items_count\{\1\.push\(T::parse\(data,offset\)\?\);\}Ok\(\1\)$', b): refuse(W, f"parse_section: {b[:200]}")
    out.append('count-times-in-order')
    return out

# ------------------------------------------------------------------ name.rs: the relations between names
def name_relations(text):
    W = 'name.rs: is_link_local / is_subdomain_of / without'
    b = fn_body(text, 'is_link_local', W, r'&self\)')
    m = re.match(r'match self\.iter\(\)\.last\(\)\{Some\((\w+)\)=>b"([^"\\]*)"\.eq_ignore_ascii_case\(&(?P=lab)\.data\),None=>false,?\}$'.replace('(\\w+)', '(?P<lab>\\w+)', 1), b)
    if not m: refuse(W, f"is_link_local: {b[:200]}")
    lit = m.group(2)
    b = fn_body(text, 'is_subdomain_of', W)
    m = re.match(r'self\.labels\.len\(\)(>=|>)other\.labels\.len\(\)&&other\.iter\(\)\.rev\(\)\.zip\(self\.iter\(\)\.rev\(\)\)\.all\(\|\((\w+),(\w+)\)\|\*(\w+)==\*(\w+)\)$', b)
    if not m or {m.group(2), m.group(3)} != {m.group(4), m.group(5)}: refuse(W, f"is_subdomain_of: {b[:200]}")
    cmp_ = m.group(1)
    b = fn_body(text, 'without', W)
    m = re.match(r'if self\.is_subdomain_of\((\w+)\)\{let labels=self\.labels\[\.\.self\.labels\.len\(\)-(\w+)\.labels\.len\(\)\]\.to_vec\(\);Some\(Name\{labels\}\)\}else\{None\}$', b)
    if not m or m.group(1) != m.group(2): refuse(W, f"without: {b[:200]}")
    return {'linkLocal': lit, 'subdomainCmp': cmp_, 'without': 'take-length-difference'}

# ------------------------------------------------------------------ rdata/opt.rs: the response code across header and OPT TTL
def opt_ttl(text):
    W = 'rdata/opt.rs: extract_rcode_from_ttl / encode_ttl'
    b = fn_body(text, 'extract_rcode_from_ttl', W)
    m = re.match(r'let mut rcode=\(ttl&masks::(\w+)\)<<(\d+);rcode\|=header\.response_code as u32;RCODE::from\(rcode as u16\)$', b)
    if not m: refuse(W, f"extract_rcode_from_ttl: {b[:200]}")
    e = fn_body(text, 'encode_ttl', W)
    m2 = re.match(r'let mut ttl:u32=\(header\.response_code as u32&masks::(\w+)\)>>(\d+);ttl\|=\(self\.version as u32\)<<masks::(\w+)\.trailing_zeros\(\);ttl$', e)
    if not m2: refuse(W, f"encode_ttl: {e[:200]}")
    return [m.group(1), m.group(2), m2.group(1), m2.group(2), m2.group(3)]

# ------------------------------------------------------------------ simple-mdns: escaping of instance names
def escapes(text):
    W = 'simple-mdns/src/instance_information.rs: escaped_instance_name / unescaped_instance_name'
    b = block_after(text, r'\bfn escaped_instance_name\(instance_name:&str\)->String', W)
    m = re.match(r'let mut (\w+)=String::new\(\);for c in instance_name\.chars\(\)\{match c\{(.*)_=>(?P=v)\.push\(c\),?\}\}(?P=v)$'.replace('(\\w+)', '(?P<v>\\w+)', 1), b)
    if not m: refuse(W, f"escaped_instance_name: {b[:200]}")
    pairs = []
    rest = m.group(2)
    for arm in re.finditer(r"'((?:\\.|[^'\\]))'=>" + m.group('v') + r'\.push_str\("((?:\\.|[^"\\])*)"\),', rest):
        pairs.append((arm.group(1), arm.group(2)))
    if re.sub(r"'((?:\\.|[^'\\]))'=>" + m.group('v') + r'\.push_str\("((?:\\.|[^"\\])*)"\),', '', rest) != '' or not pairs:
        refuse(W, f"escaped_instance_name: arms not recognised: {rest[:200]}")
    u = block_after(text, r'\bfn unescaped_instance_name\(instance_name:&str\)->String', W)
    mu = re.match(r"let mut (?P<v>\w+)=String::new\(\);let mut (?P<it>\w+)=instance_name\.chars\(\);while let Some\(c\)=(?P=it)\.next\(\)\{match c\{'((?:\\.|[^'\\]))'=>\{if let Some\(c\)=(?P=it)\.next\(\)\{(?P=v)\.push\(c\)\}\}_=>(?P=v)\.push\(c\),?\}\}(?P=v)$", u)
    if not mu: refuse(W, f"unescaped_instance_name: {u[:200]}")
    return {'pairs': pairs, 'unescapeOn': mu.group(3)}

# ------------------------------------------------------------------ simple-mdns: what the discovery loops do with a failed reply
def discovery_send(text, where, aw):
    W = f'{where}: the listener loop'
    if aw:
        body = fn_body(text, 'execution_loop', W)
        call = r'self\.process_packet\(&recv_buffer\[\.\.count\],addr,&mut on_discovery\)\.await'
        if len(re.findall(call, body)) != 1: refuse(W, "expected exactly one call of process_packet on the received bytes")
        if re.search(call + r'\?;', body): return 'propagate'
        if re.search(r'if let Err\((\w+)\)=' + call + r'\{log::(error|warn)!\([^;{}]*\);\}', body): return 'log'
        refuse(W, "treatment of the result of process_packet not recognised")
    body = block_after(text, r'\bfn send_packet\(', W)
    if re.match(r'if let Err\((\w+)\)=socket\.send_to\(packet_bytes,address\)\{log::(error|warn)!\([^;{}]*\);\}$', body):
        loop = fn_body(text, 'receive_packets_loop', W)
        if len(re.findall(r'send_packet\(&sender_socket,&reply,&reply_addr\);', loop)) == 1 and 'send_to' not in loop: return 'log'
    refuse(W, "treatment of a failed send_to in receive_packets_loop / send_packet not recognised")

# ------------------------------------------------------------------ into_owned bodies: which field each field is copied from
def into_owned_types(text):
    """[(type name, start of the body)] for every `pub fn into_owned` of a struct in this file"""
    out = []
    for m in re.finditer(r"pub fn into_owned(?:<'\w+>)?\(self\)->(\w+)(?:<'\w+>)?\{", text):
        ty = m.group(1)
        if ty == 'Self':
            impls = list(re.finditer(r"impl(?:<[^>]*>)? ?(\w+)(?:<[^>]*>)?\{", text[:m.start()]))
            if not impls: continue
            ty = impls[-1].group(1)
        out.append((ty, m.end() - 1))
    return out

def into_owned_fields(text, ty, at, where):
    """[(field, field it is copied from)] of one `into_owned` body; a field that is not a copy of exactly one
    field of `self` has the source "?" (a constant, a default, a computation over several fields)"""
    W = f'{where}: {ty}::into_owned'
    fields = list(struct_fields(text, ty, W))
    body = text[at + 1:block_end(text, at) - 1]
    if body == 'self': return [(f, f) for f in fields]
    sts = statements(body)
    lets = {}
    for st in sts[:-1]:
        m = re.match(r'let (\w+)=(.*);$', st)
        if not m: refuse(W, f"unrecognised statement: {st[:120]}")
        lets[m.group(1)] = m.group(2)
    m = re.match(rf'(?:{ty}|Self)\{{(.*)\}}$', sts[-1]) if sts else None
    if not m: refuse(W, f"the body does not end in a `{ty} {{ .. }}` literal")
    out = []
    for init in split_top(m.group(1), angle=False):
        f, e = init.split(':', 1) if ':' in init else (init, lets.get(init, init))
        srcs = sorted(set(re.findall(r'\bself\.(\w+)', e)))
        out.append((f, srcs[0] if len(srcs) == 1 else '?'))
    if sorted(f for f, _ in out) != sorted(fields): refuse(W, f"the literal initialises {sorted(f for f, _ in out)}, the struct declares {sorted(fields)}")
    return sorted(out)

# ------------------------------------------------------------------ output
def generate(repo):
    del UNTIED[:], TIED[:]
    def read(p):
        try: return compact(open(os.path.join(repo, p), encoding='utf-8').read())
        except (FileNotFoundError, NotADirectoryError, IsADirectoryError): return None
    files = {k: read(p) for k, p in (('hb', 'simple-dns/src/dns/header_buffer.rs'), ('h', 'simple-dns/src/dns/header.rs'),
             ('q', 'simple-dns/src/dns/question.rs'), ('rr', 'simple-dns/src/dns/resource_record.rs'),
             ('m', 'simple-dns/src/dns/rdata/macros.rs'), ('p', 'simple-dns/src/dns/packet.rs'),
             ('mdns', 'simple-mdns/src/resource_record_manager.rs'),
             ('rs', 'simple-mdns/src/sync_discovery/simple_responder.rs'), ('ra', 'simple-mdns/src/async_discovery/simple_responder.rs'),
             ('name', 'simple-dns/src/dns/name.rs'), ('opt', 'simple-dns/src/dns/rdata/opt.rs'), ('inst', 'simple-mdns/src/instance_information.rs'),
             ('ds', 'simple-mdns/src/sync_discovery/service_discovery.rs'), ('da', 'simple-mdns/src/async_discovery/service_discovery.rs'))}
    if files['p'] is None and files['h'] is None:
        raise OSError(f"{repo}: the sources of simple-dns are not there")
    def read_keep(p):
        try: return compact_keep(open(os.path.join(repo, p), encoding='utf-8').read())
        except (FileNotFoundError, NotADirectoryError, IsADirectoryError): return None
    files['name'] = read_keep('simple-dns/src/dns/name.rs')
    files['inst'] = read_keep('simple-mdns/src/instance_information.rs')
    def need(k, fn):
        def g():
            if files[k] is None: refuse(k, "file not found")
            return fn(files[k])
        return g
    pk = peeks(files['hb']) if files['hb'] is not None else {fn: attempt(f"peek:{fn}", need('hb', None)) for fn in
         ('id', 'questions', 'answers', 'name_servers', 'additional_records', 'has_flags', 'rcode', 'opcode')}
    hp = attempt('header.parse', need('h', header_parse))
    hw = attempt('header.write_to', need('h', header_write))
    hg = attempt('header.get_flags', need('h', header_get_flags))
    fo = attempt('header.flag_ops', need('h', flag_ops))
    qp = attempt('question.parse', need('q', question_parse))
    qw = attempt('question.write_common', need('q', question_write))
    rp = attempt('rr.parse', need('rr', rr_parse))
    rw = attempt('rr.write', need('rr', rr_write))
    mt = attempt('rr.match', need('rr', match_tables))
    rc = attempt('rr.write_compressed', need('rr', rr_write_compressed))
    dp = attempt('rdata.parse', need('m', rdata_parse))
    pp = attempt('packet.parse', need('p', packet_parse))
    pw = attempt('packet.write', need('p', packet_write))
    files['mlib'] = read_keep('simple-mdns/src/lib.rs')
    files['x'] = read_keep('simple-mdns/src/resource_record_manager.rs')
    sa = attempt('mdns.store_add', need('x', store_add))
    sf = attempt('mdns.store_filter', need('x', store_filter))
    sl = attempt('mdns.store_lookup', need('x', store_lookup))
    br = attempt('mdns.build_reply', need('mlib', build_reply))
    files['dsk'] = read_keep('simple-mdns/src/sync_discovery/service_discovery.rs')
    files['dak'] = read_keep('simple-mdns/src/async_discovery/service_discovery.rs')
    ing = [attempt('mdns.ingest:sync', need('dsk', lambda t: ingest(t, 'sync_discovery/service_discovery.rs', False))),
           attempt('mdns.ingest:tokio', need('dak', lambda t: ingest(t, 'async_discovery/service_discovery.rs', True)))]
    fr = attempt('mdns.from_records', lambda: need('inst', from_records)())
    files['conv'] = read_keep('simple-mdns/src/conversion_utils.rs')
    def _ir():
        if files['inst'] is None or files['conv'] is None: refuse('into_records', 'file not found')
        return into_records(files['inst'], files['conv'])
    ir = attempt('mdns.into_records', _ir)
    ssh = attempt('mdns.service_shape', lambda: service_shape({k: files[k] for k in ('rs', 'ra', 'ds', 'da')}))
    pep = attempt('packet.entry_points', need('p', packet_entry_points))
    files['cs'] = read_keep('simple-dns/src/dns/character_string.rs')
    csc = attempt('charstr.codec', need('cs', charstr_codec))
    npz = attempt('name.parse', need('name', name_parse))
    files['txt'] = read_keep('simple-dns/src/dns/rdata/txt.rs')
    txa = attempt('txt.api', need('txt', txt_api))
    nwr = attempt('name.write', need('name', name_write))
    ndi = attempt('name.display', need('name', name_display))
    files['modrs'] = read('simple-dns/src/dns/mod.rs')
    qo = attempt('codes.question_codes_out', need('modrs', qcodes_out))
    mw = attempt('packet.message_writer', need('p', message_writer))
    ea = attempt('rdata.enum_arms', need('m', rdata_enum_arms))
    ex = attempt('mdns.expiration', need('mdns', expiration))
    owned = []
    dns = os.path.join(repo, 'simple-dns/src/dns')
    own_files = [('simple-dns/src/dns/resource_record.rs', 'resource_record.rs'), ('simple-dns/src/dns/question.rs', 'question.rs')]
    if os.path.isdir(os.path.join(dns, 'rdata')):
        own_files += [(f'simple-dns/src/dns/rdata/{fn}', f'rdata/{fn}') for fn in sorted(os.listdir(os.path.join(dns, 'rdata'))) if fn.endswith('.rs') and fn not in ('mod.rs', 'macros.rs')]
    for path, label in own_files:
        text = read(path)
        if text is None: continue
        try: types = into_owned_types(text)
        except Exception: types = []
        for ty, at in types:
            if not re.search(rf'\bstruct {ty}\b(?:<[^>]*>)?\{{', text): continue       # enums and tuple structs: not field-wise
            v = attempt(f'own:{ty}', lambda: into_owned_fields(text, ty, at, label))
            if v is not None: owned.append((ty, v))
    sp = [attempt('mdns.responder_send:sync', need('rs', lambda t: responder_send(t, 'sync_discovery/simple_responder.rs', False))),
          attempt('mdns.responder_send:tokio', need('ra', lambda t: responder_send(t, 'async_discovery/simple_responder.rs', True)))]

    nr = attempt('name.relations', need('name', name_relations))
    ot = attempt('opt.ttl', need('opt', opt_ttl))
    es = attempt('mdns.escape', need('inst', escapes))
    dsend = [attempt('mdns.discovery_send:sync', need('ds', lambda t: discovery_send(t, 'sync_discovery/service_discovery.rs', False))),
             attempt('mdns.discovery_send:tokio', need('da', lambda t: discovery_send(t, 'async_discovery/service_discovery.rs', True)))]

    q = lambda s: '"' + s + '"'
    strs = lambda xs: '[' + ', '.join(q(x) for x in xs) + ']'
    optn = lambda v: 'none' if v is None else f'some {v}'
    rng = lambda v: 'none' if v is None else f'some ({v[0]}, {v[1]})'
    g = lambda d, k: None if d is None else d[k]
    L = ["/- generated by tools/translate_env.py — do not edit",
         "   (numbers and orders read from the envelope functions of simple-dns / simple-mdns; see Props/TieEnv.lean) -/",
         "namespace Dns.Gen.Env", "",
         "/-- items whose source text was not understood (their values below are `none`) -/",
         f"def untied : List String := {strs([n for n, _ in UNTIED])}"]
    L += [f"-- UNTIED {n}: {r}" for n, r in UNTIED]
    L += ["", "/-- header_buffer.rs: byte range read by each peek function, and what it does with the word -/"]
    for fn in ('id', 'questions', 'answers', 'name_servers', 'additional_records', 'has_flags', 'rcode', 'opcode'):
        v = pk[fn]
        camel = re.sub(r'_(\w)', lambda m: m.group(1).upper(), fn)
        L.append(f"def peek_{camel} : Option (Nat × Nat × String) := " + ('none' if v is None else f'some ({v[0]}, {v[1]}, {q(v[2])})'))
    L += ["", "/-- header.rs `Header::parse`: minimum length, byte ranges of the flags word and of the id -/",
          f"def headerMinLen : Option Nat := {optn(g(hp, 'minLen'))}",
          f"def headerFlags : Option (Nat × Nat) := {rng(g(hp, 'flags'))}",
          f"def headerId : Option (Nat × Nat) := {rng(g(hp, 'id'))}",
          "/-- `Header::write_to`: the order of the six 16-bit writes, and the order of the count parameters -/",
          f"def headerWriteOrder : Option (List String) := " + ('none' if hw is None else f'some {strs(hw[0])}'),
          f"def headerWriteParams : Option (List String) := " + ('none' if hw is None else f'some {strs(hw[1])}'),
          "/-- `Header::get_flags` has the shape `z_flags.bits() | opcode << tz(OPCODE_MASK) | rcode & RESPONSE_CODE_MASK` -/",
          f"def headerGetFlagsShape : Option Bool := {'some true' if hg else 'none'}",
          "/-- `set_flags` / `remove_flags` / `has_flags` of `Header` -/",
          f"def headerFlagOps : Option (List String) := " + ('none' if fo is None else f"some {strs([fo['set_flags'], fo['remove_flags'], fo['has_flags']])}"),
          "", "/-- question.rs `Question::parse` -/",
          f"def qGuard : Option Nat := {optn(g(qp, 'guard'))}",
          f"def qType : Option (Nat × Nat) := {rng(g(qp, 'qtype'))}",
          f"def qClass : Option (Nat × Nat) := {rng(g(qp, 'qclass'))}",
          f"def qAdvance : Option Nat := {optn(g(qp, 'advance'))}",
          f"def qClassMask : Option Nat := {optn(g(qp, 'classMask'))}",
          f"def qUnicastMask : Option Nat := {optn(g(qp, 'unicastMask'))}",
          "/-- `Question::write_common` -/",
          f"def qWriteUnicastBit : Option Nat := {optn(g(qw, 'unicastBit'))}",
          f"def qWriteOrder : Option (List String) := " + ('none' if qw is None else f"some {strs(qw['order'])}"),
          "", "/-- resource_record.rs `ResourceRecord::parse` -/",
          f"def rrGuard : Option Nat := {optn(g(rp, 'guard'))}",
          f"def rrClass : Option (Nat × Nat) := {rng(g(rp, 'class'))}",
          f"def rrTtl : Option (Nat × Nat) := {rng(g(rp, 'ttl'))}",
          "/-- `write_common` (TYPE, CLASS or UDP size, TTL), `write_to`, and the constant of `len` -/",
          f"def rrCommonOrder : Option (List String) := " + ('none' if rw is None else f"some {strs(rw['common'])}"),
          f"def rrWriteOrder : Option (List String) := " + ('none' if rw is None else f"some {strs(rw['order'])}"),
          f"def rrFixedLen : Option Nat := {optn(g(rw, 'fixedLen'))}",
          "/-- the steps of `ResourceRecord::write_compressed_to` (RDLENGTH back-patched through `seek`) -/",
          "def rrCompressedSteps : Option (List String) := " + ('none' if rc is None else f"some {strs(rc)}"),
          "/-- `match_qtype`: for each special QTYPE `true`, `false`, or the TYPEs it matches (sorted) -/"]
    if mt is None:
        L += ["def matchQType : Option (List (String × List String)) := none", "def matchQClass : Option (List (String × String)) := none"]
    else:
        arms, carms = mt
        rows = ', '.join(f"({q(k)}, {strs([v] if isinstance(v, str) else v)})" for k, v in sorted(arms.items()))
        L += [f"def matchQType : Option (List (String × List String)) := some [{rows}]",
              f"def matchQClass : Option (List (String × String)) := some [{', '.join(f'({q(k)}, {q(v)})' for k, v in sorted(carms.items()))}]"]
    L += ["", "/-- rdata/macros.rs `RData::parse` -/",
          f"def rdGuard : Option Nat := {optn(g(dp, 'guard'))}",
          f"def rdType : Option (Nat × Nat) := {rng(g(dp, 'type'))}",
          f"def rdLen : Option (Nat × Nat) := {rng(g(dp, 'rdlen'))}",
          f"def rdGuard2 : Option Nat := {optn(g(dp, 'guard2'))}",
          f"def rdOptEnd : Option Nat := {optn(g(dp, 'optEnd'))}",
          f"def rdAdvance : Option Nat := {optn(g(dp, 'advance'))}",
          "", "/-- packet.rs `Packet::parse`: first offset, (variable, header_buffer function) of each section in order -/",
          f"def packetStart : Option Nat := {optn(g(pp, 'start'))}",
          "def packetSections : Option (List (String × String)) := " + ('none' if pp is None else 'some [' + ', '.join(f'({q(a)}, {q(b)})' for a, b in pp['sections']) + ']'),
          "/-- `Packet::write_to`, `write_compressed_to`: order of what is written; `write_header`: the four counts -/",
          "def packetWriteOrder : Option (List String) := " + ('none' if pw is None else f"some {strs(pw['write_to'])}"),
          "def packetWriteCompressedOrder : Option (List String) := " + ('none' if pw is None else f"some {strs(pw['write_compressed_to'])}"),
          "def packetHeaderCounts : Option (List String) := " + ('none' if pw is None else f"some {strs(pw['counts'])}"),
          "/-- `MessageWriter` (the writer `write_compressed_to` wraps its output in): `write` and `flush` forward to the inner writer,",
          "`seek(Start(o))` goes to start + o and every seek answers relative to start -/",
          "def messageWriter : Option (List String) := " + ('none' if mw is None else f"some {strs(mw)}"),
          "/-- the record store of simple-mdns: the lifetime given to a cache-flush record, what `add_cached_resource` does for a record it already holds as authoritative, the key -/",
          "def storeFlushTtl : Option Nat := " + optn(g(sa, 'flushTtl')),
          "def storeCachedGuard : Option String := " + ('none' if sa is None else 'some ' + q(sa['guard'])),
          "def storeKeyShape : Option String := " + ('none' if sa is None else 'some ' + q(sa['key'])),
          "/-- `DomainResourceFilter::{authoritative, cached, all}` as (subdomain, authoritative, cached), `param` = the argument; `match_filter`: the field consulted for an authoritative record, for a cached one, the instant compared and how; `should_refresh`; `get_next_refresh` -/",
          "def storeFilterCtors : Option (List (String × List String)) := " + ('none' if sf is None else 'some [' + ', '.join(f'({q(k)}, {strs(v)})' for k, v in sf['ctors'].items()) + ']'),
          "def storeMatchFilter : Option (List String) := " + ('none' if sf is None else 'some ' + strs(sf['matchFilter'])),
          "def storeShouldRefresh : Option (List String) := " + ('none' if sf is None else 'some ' + strs(sf['shouldRefresh'])),
          "def storeNextRefresh : Option (List String) := " + ('none' if sf is None else 'some ' + strs(sf['nextRefresh'])),
          "/-- `get_domain_resources` -/",
          "def storeLookup : Option (List String) := " + ('none' if sl is None else 'some ' + strs(sl)),
          "/-- `build_reply`: whether answers / SRV targets are looked up with subdomains, and the types of the additional records -/",
          "def replyAnswerSub : Option String := " + ('none' if br is None else 'some ' + q(br['answerSub'])),
          "def replyTargetSub : Option String := " + ('none' if br is None else 'some ' + q(br['targetSub'])),
          "def replyAdditionalTypes : Option (List String) := " + ('none' if br is None else 'some ' + strs(br['types'])),
          "/-- `add_response_to_resources` (sync, tokio): the sections the records are taken from, in order, and the conditions a record must meet to be kept -/",
          "def ingestSections : List (Option (List String)) := [" + ', '.join('none' if v is None else 'some ' + strs(v['sections']) for v in ing) + "]",
          "def ingestFilter : List (Option (List String)) := [" + ', '.join('none' if v is None else 'some ' + strs(v['filter']) for v in ing) + "]",
          "/-- `InstanceInformation::from_records`: what each kind of record contributes -/",
          "def fromRecordsArms : Option (List (String × String)) := " + ('none' if fr is None else 'some [' + ', '.join(f'({q(a)}, {q(b)})' for a, b in fr) + ']'),
          "/-- `InstanceInformation::into_records` and the constructors of `conversion_utils.rs`: the order of the record groups; (type, class) for an IPv4 / IPv6 address; (class, priority, weight) of the SRV record (target = the owner name); the class of the TXT record -/",
          "def intoRecordsOrder : Option (List String) := " + ('none' if ir is None else 'some ' + strs(ir['order'])),
          "def intoRecordsV4 : Option (List String) := " + ('none' if ir is None else 'some ' + strs(ir['v4'])),
          "def intoRecordsV6 : Option (List String) := " + ('none' if ir is None else 'some ' + strs(ir['v6'])),
          "def intoRecordsSrv : Option (String × Nat × Nat) := " + ('none' if ir is None else f"some ({q(ir['srv'][0])}, {ir['srv'][1]}, {ir['srv'][2]})"),
          "def intoRecordsTxtClass : Option String := " + ('none' if ir is None else 'some ' + q(ir['txtClass'])),
          "/-- the loop of `Name::parse`: [initial name_size, octets a pointer needs, what a label adds to name_size besides its length, octets a label needs besides its length, what a label advances `*position` / `pointer_position` by besides its length, what the first pointer advances `*position` by]; the comparisons [name_size ? MAX_NAME_LENGTH, pointer end ? data.len(), pointer ? pointer_position, label end ? data.len(), len ? MAX_LABEL_LENGTH] (each one leads to an error) -/",
          "def nameParseNums : Option (List Nat) := " + ('none' if npz is None else 'some [' + ', '.join(str(x) for x in npz['nums']) + ']'),
          "def nameParseOps : Option (List String) := " + ('none' if npz is None else 'some ' + strs(npz['ops'])),
          "/-- `Name::compress_append`: the mask OR-ed into a pointer, the comparison and the bound under which a position is entered into the table (`plain_append` and the rest of the body have the one recognised shape) -/",
          "def nameWrite : Option (List String) := " + ('none' if nwr is None else 'some ' + strs(nwr)),
          "/-- `Display for Label` (the octets through `from_utf8_lossy`) and `Display for Name` (what stands between two labels) -/",
          "def nameDisplayLabel : Option String := " + ('none' if ndi is None else 'some ' + q(ndi['label'])),
          "def nameDisplaySep : Option String := " + ('none' if ndi is None else 'some "' + lean_str(ndi['sep']) + '"'),
          "/-- the text API of TXT: the octet `attributes` splits a character-string at and how an entry goes into the map; the characters `long_attributes` splits at (parts, then key / value) and how an entry goes in; the character `TryFrom<HashMap>` joins key and value with; what `TryFrom<&str>` takes off `MAX_CHARACTER_STRING_LENGTH` for its chunk size -/",
          "def txtAttrSep : Option Nat := " + optn(g(txa, 'attrSep')),
          "def txtAttrInsert : Option String := " + ('none' if txa is None else 'some ' + q(txa['attrInsert'])),
          "def txtLongSeps : Option (Nat × Nat) := " + ('none' if txa is None else f"some ({txa['longSep']}, {txa['longKv']})"),
          "def txtLongInsert : Option String := " + ('none' if txa is None else 'some ' + q(txa['longInsert'])),
          "def txtMapSep : Option Nat := " + optn(g(txa, 'mapSep')),
          "def txtChunkMinus : Option Nat := " + optn(g(txa, 'chunkMinus')),
          "/-- the receive buffers of the four service loops (sync responder, tokio responder, sync discovery, tokio discovery), and what the two responder loops do with a reply that cannot be serialised -/",
          "def serviceBuffers : Option (List Nat) := " + ('none' if ssh is None else 'some [' + ', '.join(str(x) for x in ssh['buffers']) + ']'),
          "def responderBuildPolicy : Option (List String) := " + ('none' if ssh is None else 'some ' + strs(ssh['build'])),
          "/-- `CharacterString`: the comparisons of `parse` (position ? data.len(), length ? MAX, end ? data.len()) and of `internal_new` (len ? MAX); what `parse` adds to length + position for the end test, the two offsets of the slice it takes, its advance besides the length, and what `len()` adds to the data length -/",
          "def charStrOps : Option (List String) := " + ('none' if csc is None else 'some ' + strs(csc['ops'])),
          "def charStrNums : Option (List Nat) := " + ('none' if csc is None else 'some [' + ', '.join(str(x) for x in csc['nums']) + ']'),
          "/-- `Packet::build_bytes_vec`, `build_bytes_vec_compressed` (a fresh, empty buffer handed to the writer and returned) and `parse_section` (the announced number of entries, each parsed where the last one ended, kept in order; an error ends the message) -/",
          "def packetEntryPoints : Option (List String) := " + ('none' if pep is None else 'some ' + strs(pep)),
          "/-- `From<QTYPE> for u16` and `From<QCLASS> for u16` (the codes the writers emit): (variant, code; `none` for the arm that converts the wrapped TYPE / CLASS) -/",
          "def qtypeToCode : Option (List (String × Option Nat)) := " + ('none' if qo is None else 'some [' + ', '.join(f'({q(a)}, {"none" if b == "inner" else "some " + b})' for a, b in qo['QTYPE']) + ']'),
          "def qclassToCode : Option (List (String × Option Nat)) := " + ('none' if qo is None else 'some [' + ', '.join(f'({q(a)}, {"none" if b == "inner" else "some " + b})' for a, b in qo['QCLASS']) + ']'),
          "/-- `RData::type_code` and `RData::into_owned` (macro `rdata_enum!`): the typed variants, `NULL(code, data)`, `Empty(type)` -/",
          "def rdataTypeCodeArms : Option (List String) := " + ('none' if ea is None else f"some {strs(ea['typeCode'])}"),
          "def rdataIntoOwnedArms : Option (List String) := " + ('none' if ea is None else f"some {strs(ea['intoOwned'])}"),
          "", "/-- simple-mdns `ExpirationInfo::new`: refresh after ttl / shortDiv below shortBelow seconds, else ttl / longDiv * longMul -/",
          f"def expShortBelow : Option Nat := {optn(g(ex, 'shortBelow'))}",
          f"def expShortDiv : Option Nat := {optn(g(ex, 'shortDiv'))}",
          f"def expLongDiv : Option Nat := {optn(g(ex, 'longDiv'))}",
          f"def expLongMul : Option Nat := {optn(g(ex, 'longMul'))}",
          "", "/-- `into_owned` of every struct: (field, the field of `self` it is copied from; \"?\" when it is not a copy of exactly one field) -/",
          "def intoOwned : List (String × List (String × String)) := [" + ',\n  '.join(f"({q(ty)}, [{', '.join(f'({q(a)}, {q(b)})' for a, b in v)}])" for ty, v in owned) + "]",
          "", "/-- simple-mdns `responder_loop` (sync, tokio): a failed `send_to` is logged (\"log\") or returned with `?` (\"propagate\") -/",
          f"def responderSendSync : Option String := {'none' if sp[0] is None else 'some ' + q(sp[0])}",
          f"def responderSendTokio : Option String := {'none' if sp[1] is None else 'some ' + q(sp[1])}",
          "/-- the discovery listeners (sync: `receive_packets_loop` + `send_packet`; tokio: `execution_loop` around `process_packet`): same question -/",
          f"def discoverySendSync : Option String := {'none' if dsend[0] is None else 'some ' + q(dsend[0])}",
          f"def discoverySendTokio : Option String := {'none' if dsend[1] is None else 'some ' + q(dsend[1])}",
          "", "/-- name.rs: the label `is_link_local` compares the last label with (ignoring ASCII case); the length comparison of",
          "`is_subdomain_of` (labels compared pairwise from the right); `without` = the leading labels, by the difference of the lengths -/",
          f"def linkLocalLabel : Option String := {'none' if nr is None else 'some ' + q(nr['linkLocal'])}",
          f"def subdomainCmp : Option String := {'none' if nr is None else 'some ' + q(nr['subdomainCmp'])}",
          f"def withoutShape : Option String := {'none' if nr is None else 'some ' + q(nr['without'])}",
          "", "/-- rdata/opt.rs: `extract_rcode_from_ttl` = (ttl & masks::A) << s | header rcode; `encode_ttl` = (rcode & masks::B) >> t | version << tz(masks::C):",
          "[A, s, B, t, C] -/",
          "def optTtlShape : Option (List String) := " + ('none' if ot is None else f"some {strs(ot)}"),
          "/-- the two shifts s and t as numbers -/",
          "def optTtlShifts : Option (Nat × Nat) := " + ('none' if ot is None else f"some ({int(ot[1])}, {int(ot[3])})"),
          "", "/-- simple-mdns instance names: (character, its escaped form) of `escaped_instance_name`, and the character after which",
          "`unescaped_instance_name` takes the next one literally (Rust source spelling of the literals) -/",
          "def escapePairs : Option (List (String × String)) := " + ('none' if es is None else 'some [' + ', '.join(f'({q(lean_str(a))}, {q(lean_str(b))})' for a, b in es['pairs']) + ']'),
          f"def unescapeOn : Option String := {'none' if es is None else 'some ' + q(lean_str(es['unescapeOn']))}",
          "", "end Dns.Gen.Env", ""]
    return '\n'.join(L)

def lean_str(rust_literal_body):
    """the text between the quotes of a Rust char / str literal, as the text of a Lean string literal (only `\\\\` and
    plain characters occur here; both languages spell them alike)"""
    if not re.fullmatch(r'(?:\\\\|[^\\"])*', rust_literal_body): raise Refuse(f"literal with an escape other than a doubled backslash: {rust_literal_body}")
    return rust_literal_body

def main():
    here = os.path.dirname(os.path.abspath(__file__))
    ap = argparse.ArgumentParser(description=__doc__.split('\n')[0])
    ap.add_argument('--repo', default='/repo')
    ap.add_argument('--out', default=os.path.join(here, '..', 'lean/SimpleDnsModel/Generated/Envelope.lean'))
    args = ap.parse_args()
    t0 = time.time()
    out = os.path.normpath(args.out)
    try:
        text = generate(args.repo)
        old = open(out, encoding='utf-8').read() if os.path.exists(out) else None
        if old != text:
            os.makedirs(os.path.dirname(out), exist_ok=True)
            with open(out, 'w', encoding='utf-8') as f: f.write(text)
    except OSError as e:
        print(f"translate_env.py: {e}", file=sys.stderr); return 2
    for item, reason in UNTIED: print(f"translate_env.py: UNTIED {item}: {reason}")
    print(f"translate_env.py: {out} {'unchanged' if old == text else 'written'} ({time.time() - t0:.2f} s); "
          f"tied {len(TIED)} items, untied {len(UNTIED)}")
    return 0

if __name__ == '__main__':
    sys.exit(main())
