#!/bin/bash
# syncwb.sh <dir made by tools/mkwb.sh>: bring the private copy up to date with /verif (sources, proofs, tools) keeping its
# own paths (harness/Cargo.toml and the translators' default --repo point at <dir>/repo) and its build output
d=$1
rsync -a --exclude .git --exclude replays --exclude work --exclude harness/target --exclude harness/Cargo.toml --exclude lean/.lake /verif/ $d/verif/
sed -i "s#default='/repo'#default='$d/repo'#" $d/verif/tools/translate.py $d/verif/tools/translate_env.py
grep -q "$d/repo" $d/verif/tools/translate_env.py && echo "synced: $d"
