#!/usr/bin/env python3
"""status_table.py -- rewrite the table of DESIGN.md section 14.5 from /verif/evidence/*.json"""
import json, os, re
root = os.path.join(os.path.dirname(os.path.abspath(__file__)), "..")
rows = []
for i in range(1, 21):
    pid = f"C{i:02d}"
    e = json.load(open(os.path.join(root, "evidence", pid + ".json")))
    c = e["coverage"]
    kf = ", ".join(k.split(":")[-1] for k in c.get("known_findings_seen", [])) or "–"
    mods = ", ".join(m.split(".")[-1] for m in c.get("proof_modules", []))
    num = lambda n: f"{n:,}".replace(",", " ")
    rows.append(f"| {pid} | {c['discharged']}/{c['obligations']} ({mods}) | {num(c['evaluations'])}{' (exhaustive)' if c.get('exhaustive') else ''} | "
                f"{num(c.get('compared_with_model', 0))} | {e['wall_s']:.0f} | {kf} |")
table = ("| Property | theorems kernel-checked (modules) | cases | compared with model | wall s | known findings |\n|---|---|---|---|---|---|\n" + "\n".join(rows))
p = os.path.join(root, "DESIGN.md")
s = open(p).read()
new = re.sub(r"\| Property \| theorems[^\n]*\n\|---[^\n]*\n(?:\| C\d\d[^\n]*\n)+", table + "\n", s, count=1)
assert new != s or table in s
open(p, "w").write(new)
print(table)
