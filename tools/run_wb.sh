#!/bin/bash
# run_wb.sh <dir with wN/deliver/Cxx-n/patch.diff>: apply each white-box change to /repo, run the property's quick check, undo
cd /verif
for d in $1/deliver/*/ $1/w*/deliver/*/; do [ -f $d/patch.diff ] || continue
  id=$(basename $d); p=${id%%-*}
  git -C /repo checkout -q -- . ; git -C /repo clean -fdq
  if ! git -C /repo apply $d/patch.diff 2>/dev/null; then echo "== $id APPLY-FAILED"; continue; fi
  out=$(./check $p quick 2>&1 | grep -E "^VIOLATION|^$p quick" | cut -c1-200)
  n=$(echo "$out" | grep -c "^VIOLATION")
  first=$(echo "$out" | grep "^VIOLATION" | head -3 | sed 's/.*replay=\/verif\/replays\///' | tr '\n' ' ')
  echo "== $id violations=$n $first"
  git -C /repo checkout -q -- . ; git -C /repo clean -fdq
done
echo WB-DONE
