#!/bin/bash
# mkwb.sh <dir>: a private, runnable copy of the whole set-up for white-box experiments:
#   <dir>/repo   a clone of /repo at HEAD (edit freely)
#   <dir>/verif  a copy of /verif (with its build output) whose harness, check and translators point at <dir>/repo
# Run checks there with  <dir>/verif/check Cxx quick  ; nothing under /repo or /verif is touched.
set -e
d=$1
mkdir -p $d
git clone -q /repo $d/repo
rsync -a --exclude .git --exclude replays --exclude work /verif/ $d/verif/
sed -i "s#/repo/simple-dns#$d/repo/simple-dns#; s#/repo/simple-mdns#$d/repo/simple-mdns#" $d/verif/harness/Cargo.toml
sed -i "s#default='/repo'#default='$d/repo'#" $d/verif/tools/translate.py $d/verif/tools/translate_env.py
grep -q "$d/repo" $d/verif/tools/translate.py
( cd $d/verif/harness && CARGO_NET_OFFLINE=true cargo build 2>&1 | tail -1 )
echo "ready: $d"
