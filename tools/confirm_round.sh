#!/bin/bash
# confirm_round.sh <round> <scratch dir>: confirm every delivered change of a round, four at a time
rnd=$1; scr=$2
cd /verif
worker() { slot=$1; shift; for p in "$@"; do crate=simple-dns; case $p in C13|C14|C15|C20) crate=simple-mdns;; esac
  for m in a b; do [ -f $scr/$p/deliver/$m/patch.diff ] || { echo "== $p-$m$rnd missing"; continue; }
    r=$(SEED_SLOT=$slot python3 tools/seed.py confirm $scr/$p/deliver/$m $p-$m$rnd $p $crate 2>&1 | grep -E '"confirmed"|AssertionError' | head -1); echo "== $p-$m$rnd $r"; done; done; }
worker 1 C01 C02 C03 C04 C05 & worker 2 C06 C07 C08 C09 C10 & worker 3 C11 C12 C13 C14 C15 & worker 4 C16 C17 C18 C19 C20 &
wait; echo CONFIRM-ROUND-DONE
