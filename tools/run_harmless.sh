#!/bin/bash
# run_harmless.sh <dir with NN.diff>: apply each behaviour-preserving refactoring to /repo's working tree, run every quick
# check, restore the tree. Expected: no VIOLATION line anywhere (NOTE lines about untied items are fine).
dir=$1; cd /verif
rm -rf /tmp/evidence-keep; cp -r evidence /tmp/evidence-keep
for d in $dir/*.diff; do
  n=$(basename $d .diff)
  [ -z "$(git -C /repo status --porcelain)" ] || { echo "repo not clean"; exit 1; }
  git -C /repo apply $d || { echo "== $n does not apply"; continue; }
  echo "== $n"
  for p in C01 C02 C03 C04 C05 C06 C07 C08 C09 C10 C11 C12 C13 C14 C15 C16 C17 C18 C19 C20; do
    out=$(./check $p quick 2>&1); rc=$?
    echo "$out" | grep -E "^VIOLATION|^NOTE" | cut -c1-260 | sed "s/^/   $p: /"
    [ $rc -ne 0 ] && echo "   $p: exit $rc"
  done
  git -C /repo checkout -- .
done
python3 tools/translate.py >/dev/null; python3 tools/translate_env.py >/dev/null
rm -rf evidence; cp -r /tmp/evidence-keep evidence; rm -rf /tmp/evidence-keep
echo HARMLESS-DONE
