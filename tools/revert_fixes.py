#!/usr/bin/env python3
"""Re-introduce each repaired defect (reverse-apply one `fix:` commit to /repo's working tree), run the
checks of the properties it violates, restore the tree. Writes seeded/fix-reverts.json."""
import json, subprocess, sys, time
FIXES = {
 "4b375ad": ["C01", "C06", "C14"], "13ddb15": ["C01", "C08", "C14"], "dbb34ab": ["C01"], "33b8474": ["C01", "C05", "C11"],
 "f232e06": ["C01", "C10"], "bc273a4": ["C01", "C14"], "e5df4cf": ["C01", "C10", "C11"], "bebab22": ["C02", "C04", "C11"],
 "f4a2f74": ["C04", "C07"], "e70a0e4": ["C03", "C07", "C14"], "bea309f": ["C04", "C07"], "148a58a": ["C11"],
 "29aa6a1": ["C12", "C14"], "a3c4476": ["C18"], "e7ede67": ["C19"], "f66f9b5": ["C13", "C14", "C15"], "ce0d7dd": ["C20", "C13"],
 "40f6f38": ["C16"], "1aeba1b": ["C15"], "4185208": ["C14"], "3098c07": ["C15"], "67a0665": ["C14"], "3696335": ["C15"], "f03f3cf": ["C14"],
}
def sh(c, cwd="/repo"):
    p = subprocess.run(c, cwd=cwd, shell=True, stdout=subprocess.PIPE, stderr=subprocess.STDOUT, text=True)
    return p.returncode, p.stdout
res = {}
only = sys.argv[1:]
for c, props in FIXES.items():
    if only and c not in only: continue
    assert sh("git status --porcelain")[1].strip() == ""
    subj = sh(f"git log -1 --format=%s {c}")[1].strip()
    rc, out = sh(f"git show {c} | git apply -R")
    if rc != 0:
        res[c] = {"subject": subj, "error": "does not reverse-apply on top of the later fixes: " + out[-300:]}
        print(c, "cannot revert alone"); sh("git checkout -- ."); continue
    r = {}
    try:
        for p in props:
            t0 = time.time()
            rc2, o = sh(f"./check {p} quick", cwd="/verif")
            r[p] = {"exit": rc2, "violations": [l for l in o.splitlines() if l.startswith("VIOLATION")], "wall_s": round(time.time() - t0, 1)}
            print(c, p, rc2, r[p]["violations"][:1])
    finally:
        sh("git checkout -- .")
        sh("python3 /verif/tools/translate.py; python3 /verif/tools/translate_env.py", "/verif")
    res[c] = {"subject": subj, "checks": r}
try: old = json.load(open("/verif/seeded/fix-reverts.json"))
except Exception: old = {}
old.update(res)
json.dump(old, open("/verif/seeded/fix-reverts.json", "w"), indent=1)
