#!/usr/bin/env python3
"""translate_selftest.py -- does tools/translate.py notice changes of the Rust sources?

    python3 tools/translate_selftest.py [--repo /repo] [--lean]

1. runs the translator on the repository and compares with the committed generated file;
2. copies the sources to a temporary directory (never touches the repository), applies one mutation
   (textual replacements and / or diff files) at a time and runs the translator on the copy.  Expected:
     changed          exit 0, nothing untied, the generated tables differ from the baseline
     untied:A,B       exit 0, `translate.py: UNTIED A: <reason>` and the same for B on stdout, nothing else
                      untied; A and B are `none` / `[]` / absent rows with their TYPE code in `untiedParse` /
                      `untiedWrite` / `untiedCompressed`; every other item is as in the baseline
     changed+untied:A both: A is untied and another item differs from the baseline
     same             (formatting-only edits) the generated file is byte-identical
     changed-harmless the text differs although the function does not (Tie.lean must still check)
   With --lean every outcome is also checked against Props/Tie.lean: a `changed` table must make a
   theorem fail to check (the named one, where a name is given), an `untied` or `same` one must still
   check (scratch copies of both files are compiled under the temporary directory, several at a time;
   the lake project is not touched).
3. the translator never exits 2 on source text it does not understand (any exit code other than 0 is
   a failure above); a source tree that is not there is the one case of exit 2, checked last.
"""
import argparse, concurrent.futures, os, re, shutil, subprocess, sys, tempfile, time

HERE = os.path.dirname(os.path.abspath(__file__))
TRANSLATE = os.path.join(HERE, 'translate.py')
LEAN_DIR = os.path.normpath(os.path.join(HERE, '..', 'lean'))
GENERATED = os.path.join(LEAN_DIR, 'SimpleDnsModel/Generated/FromSource.lean')
TIE = os.path.join(LEAN_DIR, 'SimpleDnsModel/Props/Tie.lean')
D, R = 'simple-dns/src/dns/', 'simple-dns/src/dns/rdata/'

MX_PARSE = """        if *position + 2 > data.len() {
            return Err(crate::SimpleDnsError::InsufficientData);
        }

        let preference = u16::from_be_bytes(data[*position..*position + 2].try_into()?);
        *position += 2;
        let exchange = Name::parse(data, position)?;

        Ok(Self {
            preference,
            exchange,
        })
"""
MX_PARSE_CLOSURE = ("        let read = |data: &'a [u8], position: &mut usize| -> crate::Result<Self> {\n" + MX_PARSE +
                    "        };\n        read(data, position)\n")
WRAPPERS = ['NS', 'MD', 'CNAME', 'MB', 'MG', 'MR', 'PTR', 'MF', 'NSAP_PTR', 'HTTPS']
MDNS = 'simple-mdns/src/resource_record_manager.rs'

# (label, file, old text (must occur exactly once), new text, expected outcome[, theorem that must fail first])
#   file None:   `old` is a diff file (looked for in tools/ and in its parent directory)
#   new None:    the file is removed
#   file a list: several steps (file, old, new) of the above
MUTATIONS = [
    ("harmless07.diff: opt.rs masks replaced by byte indexing, same behaviour", None, 'harmless07.diff', None,
     'untied:optRcodeMask,optVersionMask'),
    ("mutant_opcode_mask.diff: OPCODE_MASK = 0b1111 with a shift constant", None, 'mutant_opcode_mask.diff', None,
     'changed', 'opcodeMask'),
    ("mx.rs parse: body wrapped in a helper closure, same behaviour", R + 'mx.rs', MX_PARSE, MX_PARSE_CLOSURE, 'untied:parse:MX'),
    ("a.rs parse: guard of 3 bytes before a 4-byte read", R + 'a.rs', "if *position + 4 > data.len() {", "if *position + 3 > data.len() {", 'changed', 'parseGuards_model'),
    ("soa.rs parse: guard of 16 bytes before five 32-bit integers", R + 'soa.rs', "if *position + 20 > data.len() {", "if *position + 16 > data.len() {", 'changed', 'parseGuards_model'),
    ("rrsig.rs parse: guard written the other way round, same value", R + 'rrsig.rs', "if *position + 18 > data.len() {", "if data.len() < *position + 18 {", 'same'),
    ("mx.rs parse: name read before the preference", R + 'mx.rs',
     """        let preference = u16::from_be_bytes(data[*position..*position + 2].try_into()?);
        *position += 2;
        let exchange = Name::parse(data, position)?;
""", """        let exchange = Name::parse(data, position)?;
        let preference = u16::from_be_bytes(data[*position..*position + 2].try_into()?);
        *position += 2;
""", 'changed'),
    ("a.rs: TYPE_CODE 1 -> 99", R + 'a.rs', "const TYPE_CODE: u16 = 1;", "const TYPE_CODE: u16 = 99;", 'changed'),
    ("mod.rs: rr_wrapper PTR = 12 -> 13", R + 'mod.rs', "PTR:Name = 12", "PTR:Name = 13", 'changed'),
    ("srv.rs: write_compressed_to compressing the target", R + 'srv.rs',
     "    fn len(&self) -> usize {\n        self.target.len() + 6",
     """    fn write_compressed_to<T: std::io::Write + std::io::Seek>(
        &'a self,
        out: &mut T,
        name_refs: &mut std::collections::HashMap<&'a [crate::dns::name::Label<'a>], usize>,
    ) -> crate::Result<()> {
        out.write_all(&self.priority.to_be_bytes())?;
        out.write_all(&self.weight.to_be_bytes())?;
        out.write_all(&self.port.to_be_bytes())?;
        self.target.write_compressed_to(out, name_refs)
    }

    fn len(&self) -> usize {
        self.target.len() + 6""", 'changed'),
    ("mx.rs: write_compressed_to no longer compresses", R + 'mx.rs',
     "self.exchange.write_compressed_to(out, name_refs)", "self.exchange.write_to(out)", 'changed'),
    ("srv.rs parse: weight and port read from swapped offsets", R + 'srv.rs',
     """let weight = u16::from_be_bytes(data[*position + 2..*position + 4].try_into()?);
        let port = u16::from_be_bytes(data[*position + 4..*position + 6].try_into()?);""",
     """let weight = u16::from_be_bytes(data[*position + 4..*position + 6].try_into()?);
        let port = u16::from_be_bytes(data[*position + 2..*position + 4].try_into()?);""", 'changed'),
    ("soa.rs write_common: retry written before refresh", R + 'soa.rs',
     """        out.write_all(&self.refresh.to_be_bytes())?;
        out.write_all(&self.retry.to_be_bytes())?;""",
     """        out.write_all(&self.retry.to_be_bytes())?;
        out.write_all(&self.refresh.to_be_bytes())?;""", 'changed'),
    ("ds.rs write: digest_type before algorithm", R + 'ds.rs',
     "&[self.algorithm, self.digest_type]", "&[self.digest_type, self.algorithm]", 'changed'),
    ("rrsig.rs: key_tag widened to u32 in the struct only", R + 'rrsig.rs',
     "pub key_tag: u16,", "pub key_tag: u32,", 'changed'),
    ("loc.rs parse: size and horizontal_precision indices swapped", R + 'loc.rs',
     "let size = u8::from_be(data[1]);\n        let horizontal_precision = u8::from_be(data[2]);",
     "let size = u8::from_be(data[2]);\n        let horizontal_precision = u8::from_be(data[1]);", 'changed'),
    ("nsap.rs write: aa written in full", R + 'nsap.rs', "self.aa.to_be_bytes()[1..4]", "self.aa.to_be_bytes()", 'changed'),
    ("nsap.rs write: high-order bytes of aa", R + 'nsap.rs', "self.aa.to_be_bytes()[1..4]", "self.aa.to_be_bytes()[0..3]", 'untied:write:NSAP'),
    ("nsec.rs parse: ordering check >= weakened to >", R + 'nsec.rs',
     "f.window_block >= window_block", "f.window_block > window_block", 'untied:parse:NSEC'),
    ("nsec.rs write: windows no longer sorted", R + 'nsec.rs', "for record in sorted.iter()", "for record in self.type_bit_maps.iter()", 'changed'),
    ("svcb.rs parse: previous_key never updated", R + 'svcb.rs', "            previous_key = i32::from(key);\n", "", 'changed'),
    ("svcb.rs write: 1-byte value length", R + 'svcb.rs', "let value_length = value.len() as u16;", "let value_length = value.len() as u8;", 'changed'),
    ("txt.rs write: the empty case dropped", R + 'txt.rs',
     """        if self.strings.is_empty() {
            out.write_all(&[0])?;
        } else {
            for string in &self.strings {
                string.write_to(out)?;
            }
        }""", """        for string in &self.strings {
            string.write_to(out)?;
        }""", 'untied:write:TXT'),
    ("cert.rs parse: a conditional extra read", R + 'cert.rs',
     "        let certificate = &data[*position..];",
     "        if algorithm == 0 { let _pad = data[*position]; *position += 1; }\n        let certificate = &data[*position..];", 'untied:parse:CERT'),
    ("wks.rs parse: protocol read from the wrong offset", R + 'wks.rs', "data[*position + 4];", "data[*position + 3];", 'untied:parse:WKS'),
    ("kx.rs parse: position not advanced", R + 'kx.rs', "        *position += 2;\n", "", 'untied:parse:KX'),
    ("kx.rs write: a conditional early return", R + 'kx.rs',
     "        out.write_all(&self.preference.to_be_bytes())?;",
     "        if self.preference == 0 { return Ok(()); }\n        out.write_all(&self.preference.to_be_bytes())?;", 'untied:write:KX'),
    ("rp.rs parse: a conditional early return", R + 'rp.rs',
     "        let txt = Name::parse(data, position)?;",
     "        if *position == data.len() { return Ok(RP { mbox: mbox.clone(), txt: mbox }); }\n        let txt = Name::parse(data, position)?;", 'untied:parse:RP'),
    ("name.rs: MAX_POINTER_OFFSET widened", D + 'name.rs',
     "MAX_POINTER_OFFSET: usize = 0b0011_1111_1111_1111", "MAX_POINTER_OFFSET: usize = 0b0111_1111_1111_1111", 'changed'),
    ("mod.rs: MAX_LABEL_LENGTH 63 -> 64", D + 'mod.rs', "MAX_LABEL_LENGTH: usize = 63", "MAX_LABEL_LENGTH: usize = 64", 'changed'),
    ("header.rs: RESERVED_MASK moved", D + 'header.rs',
     "RESERVED_MASK: u16 = 0b0000_0000_0100_0000", "RESERVED_MASK: u16 = 0b0000_0000_0010_0000", 'changed'),
    ("mod.rs: PacketFlag::TRUNCATION moved", D + 'mod.rs',
     "const TRUNCATION = 0b0000_0010_0000_0000", "const TRUNCATION = 0b0000_1000_0000_0000", 'changed'),
    ("mod.rs: targets of two arms of From<u16> for RCODE swapped", D + 'mod.rs',
     "            0 => NoError,\n            1 => FormatError,", "            0 => FormatError,\n            1 => NoError,", 'changed'),
    ("mod.rs: RCODE::Reserved = 15 -> implicit", D + 'mod.rs', "    Reserved = 15,", "    Reserved,", 'changed'),
    ("mod.rs: discriminant CLASS::NONE = 253 (arms untouched)", D + 'mod.rs', "    NONE = 254,", "    NONE = 253,", 'changed'),
    ("mod.rs: OPCODE 3 => Notify", D + 'mod.rs', "            4 => OPCODE::Notify,", "            3 => OPCODE::Notify,", 'changed'),
    ("mod.rs: QTYPE 250 => IXFR", D + 'mod.rs', "            251 => Ok(QTYPE::IXFR),", "            250 => Ok(QTYPE::IXFR),", 'changed'),
    ("resource_record.rs: CACHE_FLUSH bit moved", D + 'resource_record.rs',
     "CACHE_FLUSH: u16 = 0b1000_0000_0000_0000", "CACHE_FLUSH: u16 = 0b0100_0000_0000_0000", 'changed'),
    ("simple-mdns: cache-flush TTL 1 -> 2", 'simple-mdns/src/resource_record_manager.rs',
     "let ttl = if resource.cache_flush {\n            1", "let ttl = if resource.cache_flush {\n            2", 'changed'),
    ("mx.rs: reformatted and commented, same code", R + 'mx.rs',
     """        let preference = u16::from_be_bytes(data[*position..*position + 2].try_into()?);
        *position += 2;""",
     """        let preference = u16::from_be_bytes(   // the preference
            data[ *position .. *position+2 ]
                .try_into()? );
        /* then */ *position
            += 2;""", 'same'),
    ("mod.rs: two arms of From<u16> for RCODE reordered textually, same function", D + 'mod.rs',
     "            0 => NoError,\n            1 => FormatError,", "            1 => FormatError,\n            0 => NoError,", 'same'),
    # one item of every kind untied: the rest is generated as usual and Tie.lean still checks
    ("a.rs: TYPE_CODE is not a literal", R + 'a.rs', "const TYPE_CODE: u16 = 1;", "const TYPE_CODE: u16 = 0 + 1;",
     'untied:typeCodes,parse:A,write:A,compressed:A'),
    ("mod.rs: the rdata_enum! invocation renamed", R + 'mod.rs', "macros::rdata_enum! {", "macros::rdata_enum_v2! {", 'untied:*'),
    ("macros.rs: TYPE -> TYPE_CODE arm reshaped", R + 'macros.rs', "TYPE::$i => $i::TYPE_CODE,", "TYPE::$i => <$i as RR>::TYPE_CODE,",
     'untied:typeCodes'),
    ("macros.rs: rr_wrapper! parse written with `?`", R + 'macros.rs', "$w::parse(data, position).map(|n| $t(n))",
     "Ok($t($w::parse(data, position)?))", 'untied:' + ','.join('parse:' + w for w in WRAPPERS)),
    ("mx.rs write_compressed_to: result bound before it is returned", R + 'mx.rs',
     "        self.exchange.write_compressed_to(out, name_refs)\n",
     "        let r = self.exchange.write_compressed_to(out, name_refs);\n        r\n", 'untied:parse:MX,write:MX,compressed:MX'),
    ("a.rs write_compressed_to: an override that is not understood, no names", R + 'a.rs',
     "    fn len(&self) -> usize {", """    fn write_compressed_to<T: std::io::Write + std::io::Seek>(
        &'a self,
        out: &mut T,
        _: &mut std::collections::HashMap<&'a [crate::dns::name::Label<'a>], usize>,
    ) -> crate::Result<()> {
        let bytes = self.address.to_be_bytes();
        out.write_all(&bytes).map_err(crate::SimpleDnsError::from)
    }

    fn len(&self) -> usize {""", 'untied:compressed:A'),
    ("mod.rs: a PacketFlag constant written as a shift", D + 'mod.rs',
     "const TRUNCATION = 0b0000_0010_0000_0000", "const TRUNCATION = 1 << 9", 'untied:packetFlags'),
    ("header.rs: RESERVED_MASK written as a shift", D + 'header.rs',
     "RESERVED_MASK: u16 = 0b0000_0000_0100_0000", "RESERVED_MASK: u16 = 1 << 6", 'untied:reservedMask'),
    ("mod.rs: a CLASS discriminant written as a sum", D + 'mod.rs', "    NONE = 254,", "    NONE = 253 + 1,", 'untied:classTable'),
    ("mod.rs: an arm of TryFrom<u16> for CLASS with a guard", D + 'mod.rs',
     "            254 => Ok(NONE),", "            v if v == 254 => Ok(NONE),", 'untied:classArms'),
    ("mod.rs: an arm of From<u16> for OPCODE with a guard", D + 'mod.rs',
     "            4 => OPCODE::Notify,", "            v if v == 4 => OPCODE::Notify,", 'untied:opcodeArms'),
    ("mod.rs: an OPCODE discriminant written as a sum", D + 'mod.rs', "    Notify = 4,", "    Notify = 3 + 1,", 'untied:opcodeTable'),
    ("mod.rs: an arm of From<u16> for RCODE with a guard", D + 'mod.rs',
     "            16 => BADVERS,", "            v if v == 16 => BADVERS,", 'untied:rcodeArms'),
    ("mod.rs: an RCODE discriminant written as a sum", D + 'mod.rs', "    Reserved = 15,", "    Reserved = 14 + 1,", 'untied:rcodeTable'),
    ("mod.rs: the arm of TryFrom<u16> for QCLASS with a guard", D + 'mod.rs',
     "            255 => Ok(QCLASS::ANY),", "            v if v == 255 => Ok(QCLASS::ANY),", 'untied:qclassSpecials'),
    ("mod.rs: QTYPE default arm names TYPE by its path", D + 'mod.rs',
     "            v => match TYPE::from(v) {", "            v => match crate::TYPE::from(v) {", 'untied:qtypeSpecials'),
    ("simple-mdns: the TTL converted before Duration::from_secs", MDNS,
     "let expire_at = added + Duration::from_secs(ttl);", "let expire_at = added + Duration::from_secs(ttl.into());", 'untied:ttlUnitMillis'),
    ("simple-mdns: cache-flush TTL selected by an if / else if", MDNS,
     "let ttl = if resource.cache_flush {", "let ttl = if !resource.cache_flush { resource.ttl } else if resource.cache_flush {", 'untied:cacheFlushTtl'),
    ("rdata/opt.rs removed (OPT::TYPE_CODE goes with it)", R + 'opt.rs', '', None, 'untied:typeCodes,optRcodeMask,optVersionMask'),
    # untied and changed at once: the untied item does not hide the other one
    ("harmless07.diff and MAX_LABEL_LENGTH 63 -> 64",
     [(None, 'harmless07.diff', None), (D + 'mod.rs', "MAX_LABEL_LENGTH: usize = 63", "MAX_LABEL_LENGTH: usize = 64")],
     None, None, 'changed+untied:optRcodeMask,optVersionMask', 'maxLabel'),
    ("mx.rs: parse untied, write_to with the fields swapped",
     [(R + 'mx.rs', MX_PARSE, MX_PARSE_CLOSURE),
      (R + 'mx.rs', "        out.write_all(&self.preference.to_be_bytes())?;\n        self.exchange.write_to(out)\n",
       "        self.exchange.write_to(out)?;\n        out.write_all(&self.preference.to_be_bytes()).map_err(crate::SimpleDnsError::from)\n")],
     None, None, 'changed+untied:parse:MX', 'writeSchema_model'),
    ("mx.rs: parse untied, write_compressed_to no longer compresses",
     [(R + 'mx.rs', MX_PARSE, MX_PARSE_CLOSURE),
      (R + 'mx.rs', "self.exchange.write_compressed_to(out, name_refs)", "self.exchange.write_to(out)")],
     None, None, 'changed+untied:parse:MX', 'writeSchema_model'),
]

def run_translator(repo, out):
    p = subprocess.run([sys.executable, TRANSLATE, '--repo', repo, '--out', out], capture_output=True, text=True)
    return p.returncode, p.stdout.strip(), p.stderr.strip()

# ---------------------------------------------------------------- the generated file, item by item

SCHEMA_TABLES = {'parse': ('parseSchema', 'parseFields', 'parseGuards', 'untiedParse'), 'write': ('writeSchema', 'writeFields', 'untiedWrite'),
                 'compressed': ('compressedSchema', 'untiedCompressed')}
DEFAULT_OF = {'classArms': 'classDefault', 'opcodeArms': 'opcodeDefault', 'rcodeArms': 'rcodeDefault'}

def read_defs(text):
    """def name -> its value: a string without whitespace, or for a table the list of its rows / elements"""
    defs = {}
    for m in re.finditer(r'^def (\w+) : ([^\n]*?) := (.*?)(?=^(?:def |/-|--|end )|^$)', text, re.M | re.S):
        name, ty, val = m.group(1), m.group(2), re.sub(r'\s+', '', m.group(3))
        if ty.startswith('List (Nat × List'): val = re.findall(r'\((\d+),\[(.*?)\]\)', val)
        elif ty.startswith('List'): val = re.findall(r'\([^()]*\)|"[^"]*"|\d+', val)
        defs[name] = val
    return defs

def expected_defs(base, items):
    """the baseline with exactly `items` untied (None for a key: not compared)"""
    exp = dict(base)
    exp['untied'] = sorted(f'"{i}"' for i in items)
    code = {re.match(r'\("(\w+)"', e).group(1): e.rstrip(')').split(',')[1] for e in base['typeCodes']}
    codes_known = 'typeCodes' not in items
    for it in items:
        kind, _, ty = it.partition(':')
        if ty:
            *tables, codes = SCHEMA_TABLES[kind]
            for t in tables: exp[t] = [r for r in exp[t] if r[0] != code[ty]]
            exp[codes] = exp[codes] + [code[ty]] if codes_known else None
        elif it in base and base[it].__class__ is list: exp[it] = []
        else: exp[it] = 'none'
        if it in DEFAULT_OF: exp[DEFAULT_OF[it]] = 'none'
    return exp

def compare_untied(base_text, out_text, stdout, want):
    """-> (ok, note): were exactly the items `want` untied (a list, or '*': typeCodes and every schema row),
    and is every other item as in the baseline?"""
    said = re.findall(r'^translate\.py: UNTIED (\S+): \S', stdout, re.M)
    base, got = read_defs(base_text), read_defs(out_text)
    listed = [e.strip('"') for e in got.get('untied', [])]
    if sorted(said) != sorted(listed): return False, f"stdout says UNTIED {said}, `def untied` lists {listed}"
    if len(re.findall(r'^-- UNTIED ', out_text, re.M)) != len(listed): return False, "reasons are not in the generated file"
    if want == ['*']:
        if 'typeCodes' not in said or any(i != 'typeCodes' and i.split(':')[0] not in SCHEMA_TABLES for i in said):
            return False, f"untied: {said}"
        exp = dict(base, untied=None, typeCodes=[], untiedParse=None, untiedWrite=None, untiedCompressed=None)
        for k in SCHEMA_TABLES.values():
            for t in k[:-1]: exp[t] = []
    else:
        if sorted(said) != sorted(want): return False, f"untied {said}, expected {want}"
        exp = expected_defs(base, want)
    if got.keys() != exp.keys(): return False, f"defs {sorted(got.keys() ^ exp.keys())} missing or new"
    norm = lambda k, v: sorted(v) if k.startswith('untied') else v
    diff = [k for k in exp if exp[k] is not None and norm(k, got[k]) != norm(k, exp[k])]
    return (not diff), (f"other items differ from the baseline: {diff}" if diff else f"untied {', '.join(said)}; every other item as in the baseline")

# ---------------------------------------------------------------- Props/Tie.lean against a generated file

class LeanCheck:
    """compile scratch copies (module names TieScratch.*) of a generated file and of Tie.lean against it"""
    def __init__(self, tmp):
        env = lambda *a: subprocess.run(['lake', 'env', *a], cwd=LEAN_DIR, capture_output=True, text=True).stdout.strip()
        self.lean, self.tmp, self.path = env('which', 'lean'), tmp, env('printenv', 'LEAN_PATH')
        self.tie = open(TIE).read().replace('import SimpleDnsModel.Generated.FromSource', 'import TieScratch.FromSource')
    def fails(self, generated_text):
        """-> None if Tie checks against the generated file, else the first theorem that does not (or the error)"""
        d = tempfile.mkdtemp(prefix='lean', dir=self.tmp)      # one scratch directory per check: they run concurrently
        src, lib = os.path.join(d, 'src/TieScratch'), os.path.join(d, 'lib')
        os.makedirs(src); os.makedirs(os.path.join(lib, 'TieScratch'))
        for name, text in (('Tie.lean', self.tie), ('FromSource.lean', generated_text)):
            with open(os.path.join(src, name), 'w') as f: f.write(text)
        env = dict(os.environ, LEAN_PATH=lib + os.pathsep + self.path)
        try:
            for args in (['FromSource.lean', '-o', os.path.join(lib, 'TieScratch/FromSource.olean')], ['Tie.lean']):
                p = subprocess.run([self.lean, *args], cwd=src, env=env, capture_output=True, text=True)
                if p.returncode != 0:
                    err = next((l for l in (p.stdout + p.stderr).splitlines() if 'error' in l), 'error')
                    m = re.search(r'Tie\.lean:(\d+):', err)
                    thm = m and next((l.split()[1] for l in reversed(self.tie.splitlines()[:int(m.group(1))])
                                      if l.startswith('theorem ')), None)
                    return f"theorem {thm} (Tie.lean:{m.group(1)})" if thm else err[:150]
            return None
        finally:
            shutil.rmtree(d, ignore_errors=True)

def find_diff(name):
    return next((p for p in (os.path.join(HERE, name), os.path.join(HERE, '..', name)) if os.path.exists(p)), None)

def mutate(copy, rel, old, new):
    """-> None or why the mutation does not apply"""
    if isinstance(rel, list):
        return next((e for e in (mutate(copy, *step) for step in rel) if e), None)
    if rel is None:
        path = find_diff(old)
        if not path: return f"{old} not found in tools/ or next to it"
        p = subprocess.run(['patch', '-p1', '-s', '-i', os.path.abspath(path)], cwd=copy, capture_output=True, text=True)
        return None if p.returncode == 0 else f"{old} does not apply: {(p.stdout + p.stderr).strip()[:200]}"
    path = os.path.join(copy, rel)
    if new is None:
        os.remove(path); return None
    src = open(path).read()
    if src.count(old) != 1: return f"mutation does not apply ({src.count(old)} occurrences in {rel})"
    with open(path, 'w') as f: f.write(src.replace(old, new))
    return None

def main():
    ap = argparse.ArgumentParser(description=__doc__.split('\n')[0])
    ap.add_argument('--repo', default='/repo')
    ap.add_argument('--lean', action='store_true', help='also check every outcome against Props/Tie.lean')
    ap.add_argument('--jobs', type=int, default=min(8, os.cpu_count() or 1), help='Lean checks run at a time')
    args = ap.parse_args()
    bad, t0 = 0, time.time()
    with tempfile.TemporaryDirectory(prefix='translate_selftest_') as tmp:
        base = os.path.join(tmp, 'baseline.lean')
        rc, msg, err = run_translator(args.repo, base)
        ok = rc == 0 and 'UNTIED' not in msg and re.search(r'tied \d+ items, untied 0$', msg) is not None
        print(f"[{'ok' if ok else 'FAIL'}] translator on {args.repo}: {msg or err}")
        if rc != 0: return 1
        bad += not ok
        baseline = open(base).read()
        fresh = os.path.exists(GENERATED) and open(GENERATED).read() == baseline
        print(f"[{'ok' if fresh else 'FAIL'}] committed {os.path.relpath(GENERATED, LEAN_DIR)} is up to date")
        bad += not fresh
        lean = LeanCheck(tmp) if args.lean else None
        pool = concurrent.futures.ThreadPoolExecutor(max_workers=max(1, args.jobs))
        results = []     # (label, ok so far, outcome text, note, future of the Lean check or None, must Tie fail, theorem)
        if lean: results.append(("Tie.lean against the baseline", True, "checked", '', pool.submit(lean.fails, baseline), False, None))
        for label, rel, old, new, expect, *thm in MUTATIONS:
            copy = os.path.join(tmp, 'repo')
            shutil.rmtree(copy, ignore_errors=True)
            for sub in ('simple-dns/src', 'simple-mdns/src'):
                shutil.copytree(os.path.join(args.repo, sub), os.path.join(copy, sub))
            why = mutate(copy, rel, old, new)
            if why:
                results.append((label, False, why, '', None, False, None)); continue
            out = os.path.join(tmp, 'mutant.lean')
            if os.path.exists(out): os.remove(out)
            rc, msg, err = run_translator(copy, out)
            if rc != 0 or not os.path.exists(out):
                results.append((label, False, f"exit {rc}: {err or msg}", '', None, False, None)); continue
            text, untied = open(out).read(), 'UNTIED' in msg
            kind, _, items = expect.partition(':')
            got = ('same' if text == baseline else 'changed+untied' if untied and kind == 'changed+untied' else
                   'untied' if untied else 'changed')
            ok, note = got == kind.split('-')[0], ''
            if ok and kind == 'untied':
                ok, note = compare_untied(baseline, text, msg, items.split(','))
            elif ok and kind == 'changed+untied':
                exp = expected_defs(read_defs(baseline), items.split(','))
                said = re.findall(r'^translate\.py: UNTIED (\S+): \S', msg, re.M)
                ok = sorted(said) == sorted(items.split(',')) and read_defs(text) != exp
                note = f"untied {', '.join(said)}; another item differs from the baseline" if ok else f"untied {said}"
            must_fail = kind in ('changed', 'changed+untied')
            fut = pool.submit(lean.fails, text) if ok and lean else None
            results.append((label, ok, got + ('' if ok else f" (expected {expect})"), note, fut, must_fail, thm[0] if thm else None))
        for label, ok, got, note, fut, must_fail, thm in results:
            if fut:
                f = fut.result()
                ok = (f is not None) == must_fail and (not thm or not f or f.startswith(f"theorem {thm} "))
                note += ('; ' if note else '') + (f"Tie fails at {f}" if f else "Tie still checks") + \
                        ("" if ok else f"  <-- unexpected{', expected theorem ' + thm if thm and f else ''}")
            print(f"[{'ok' if ok else 'FAIL'}] {label}: {got}" + (f"\n       {note}" if note else ""))
            bad += not ok
        rc, msg, err = run_translator(os.path.join(tmp, 'no-such-repo'), os.path.join(tmp, 'none.lean'))
        ok = rc == 2 and not os.path.exists(os.path.join(tmp, 'none.lean'))
        print(f"[{'ok' if ok else 'FAIL'}] no source tree: exit {rc} ({err or msg})")
        bad += not ok
    print(f"{len(MUTATIONS)} mutations, {bad} failures, {time.time() - t0:.1f} s")
    return 1 if bad else 0

if __name__ == '__main__':
    sys.exit(main())
