#!/usr/bin/env python3
"""translate_selftest.py -- does tools/translate.py notice changes of the Rust sources?

    python3 tools/translate_selftest.py [--repo /repo] [--lean]

1. runs the translator on the repository and compares with the committed generated file;
2. copies the sources to a temporary directory (never touches the repository), applies one textual
   mutation at a time and runs the translator on the copy.  Expected per mutation:
     changed  the generated tables differ from the baseline
     refused  the translator exits 2 and names the file / function
     same     (formatting-only edits) the generated file is byte-identical
   With --lean every outcome is also checked against Props/Tie.lean: a `changed` table must make a
   theorem fail to check, a `same` one must still check (scratch copies of both files are compiled
   under the temporary directory; the lake project is not touched).
"""
import argparse, os, re, shutil, subprocess, sys, tempfile, time

HERE = os.path.dirname(os.path.abspath(__file__))
TRANSLATE = os.path.join(HERE, 'translate.py')
LEAN_DIR = os.path.normpath(os.path.join(HERE, '..', 'lean'))
GENERATED = os.path.join(LEAN_DIR, 'SimpleDnsModel/Generated/FromSource.lean')
TIE = os.path.join(LEAN_DIR, 'SimpleDnsModel/Props/Tie.lean')
D, R = 'simple-dns/src/dns/', 'simple-dns/src/dns/rdata/'

# (label, file, old text (must occur exactly once), new text, expected outcome)
MUTATIONS = [
    ("mx.rs parse: name read before the preference", R + 'mx.rs',
     """        let preference = u16::from_be_bytes(data[*position..*position + 2].try_into()?);
        *position += 2;
        let exchange = Name::parse(data, position)?;
""", """        let exchange = Name::parse(data, position)?;
        let preference = u16::from_be_bytes(data[*position..*position + 2].try_into()?);
        *position += 2;
""", 'changed'),
    ("a.rs: TYPE_CODE 1 -> 99", R + 'a.rs', "const TYPE_CODE: u16 = 1;", "const TYPE_CODE: u16 = 99;", 'changed'),
    ("mod.rs: rr_wrapper PTR = 12 -> 13", R + 'mod.rs', "PTR:Name = 12", "PTR:Name = 13", 'changed'),
    ("srv.rs: write_compressed_to compressing the target", R + 'srv.rs',
     "    fn len(&self) -> usize {\n        self.target.len() + 6",
     """    fn write_compressed_to<T: std::io::Write + std::io::Seek>(
        &'a self,
        out: &mut T,
        name_refs: &mut std::collections::HashMap<&'a [crate::dns::name::Label<'a>], usize>,
    ) -> crate::Result<()> {
        out.write_all(&self.priority.to_be_bytes())?;
        out.write_all(&self.weight.to_be_bytes())?;
        out.write_all(&self.port.to_be_bytes())?;
        self.target.write_compressed_to(out, name_refs)
    }

    fn len(&self) -> usize {
        self.target.len() + 6""", 'changed'),
    ("mx.rs: write_compressed_to no longer compresses", R + 'mx.rs',
     "self.exchange.write_compressed_to(out, name_refs)", "self.exchange.write_to(out)", 'changed'),
    ("srv.rs parse: weight and port read from swapped offsets", R + 'srv.rs',
     """let weight = u16::from_be_bytes(data[*position + 2..*position + 4].try_into()?);
        let port = u16::from_be_bytes(data[*position + 4..*position + 6].try_into()?);""",
     """let weight = u16::from_be_bytes(data[*position + 4..*position + 6].try_into()?);
        let port = u16::from_be_bytes(data[*position + 2..*position + 4].try_into()?);""", 'changed'),
    ("soa.rs write_common: retry written before refresh", R + 'soa.rs',
     """        out.write_all(&self.refresh.to_be_bytes())?;
        out.write_all(&self.retry.to_be_bytes())?;""",
     """        out.write_all(&self.retry.to_be_bytes())?;
        out.write_all(&self.refresh.to_be_bytes())?;""", 'changed'),
    ("ds.rs write: digest_type before algorithm", R + 'ds.rs',
     "&[self.algorithm, self.digest_type]", "&[self.digest_type, self.algorithm]", 'changed'),
    ("rrsig.rs: key_tag widened to u32 in the struct only", R + 'rrsig.rs',
     "pub key_tag: u16,", "pub key_tag: u32,", 'changed'),
    ("loc.rs parse: size and horizontal_precision indices swapped", R + 'loc.rs',
     "let size = u8::from_be(data[1]);\n        let horizontal_precision = u8::from_be(data[2]);",
     "let size = u8::from_be(data[2]);\n        let horizontal_precision = u8::from_be(data[1]);", 'changed'),
    ("nsap.rs write: aa written in full", R + 'nsap.rs', "self.aa.to_be_bytes()[1..4]", "self.aa.to_be_bytes()", 'changed'),
    ("nsap.rs write: high-order bytes of aa", R + 'nsap.rs', "self.aa.to_be_bytes()[1..4]", "self.aa.to_be_bytes()[0..3]", 'refused'),
    ("nsec.rs parse: ordering check >= weakened to >", R + 'nsec.rs',
     "f.window_block >= window_block", "f.window_block > window_block", 'refused'),
    ("nsec.rs write: windows no longer sorted", R + 'nsec.rs', "for record in sorted.iter()", "for record in self.type_bit_maps.iter()", 'changed'),
    ("svcb.rs parse: previous_key never updated", R + 'svcb.rs', "            previous_key = i32::from(key);\n", "", 'changed'),
    ("svcb.rs write: 1-byte value length", R + 'svcb.rs', "let value_length = value.len() as u16;", "let value_length = value.len() as u8;", 'changed'),
    ("txt.rs write: the empty case dropped", R + 'txt.rs',
     """        if self.strings.is_empty() {
            out.write_all(&[0])?;
        } else {
            for string in &self.strings {
                string.write_to(out)?;
            }
        }""", """        for string in &self.strings {
            string.write_to(out)?;
        }""", 'refused'),
    ("cert.rs parse: a conditional extra read", R + 'cert.rs',
     "        let certificate = &data[*position..];",
     "        if algorithm == 0 { let _pad = data[*position]; *position += 1; }\n        let certificate = &data[*position..];", 'refused'),
    ("wks.rs parse: protocol read from the wrong offset", R + 'wks.rs', "data[*position + 4];", "data[*position + 3];", 'refused'),
    ("kx.rs parse: position not advanced", R + 'kx.rs', "        *position += 2;\n", "", 'refused'),
    ("kx.rs write: a conditional early return", R + 'kx.rs',
     "        out.write_all(&self.preference.to_be_bytes())?;",
     "        if self.preference == 0 { return Ok(()); }\n        out.write_all(&self.preference.to_be_bytes())?;", 'refused'),
    ("rp.rs parse: a conditional early return", R + 'rp.rs',
     "        let txt = Name::parse(data, position)?;",
     "        if *position == data.len() { return Ok(RP { mbox: mbox.clone(), txt: mbox }); }\n        let txt = Name::parse(data, position)?;", 'refused'),
    ("name.rs: MAX_POINTER_OFFSET widened", D + 'name.rs',
     "MAX_POINTER_OFFSET: usize = 0b0011_1111_1111_1111", "MAX_POINTER_OFFSET: usize = 0b0111_1111_1111_1111", 'changed'),
    ("mod.rs: MAX_LABEL_LENGTH 63 -> 64", D + 'mod.rs', "MAX_LABEL_LENGTH: usize = 63", "MAX_LABEL_LENGTH: usize = 64", 'changed'),
    ("header.rs: RESERVED_MASK moved", D + 'header.rs',
     "RESERVED_MASK: u16 = 0b0000_0000_0100_0000", "RESERVED_MASK: u16 = 0b0000_0000_0010_0000", 'changed'),
    ("mod.rs: PacketFlag::TRUNCATION moved", D + 'mod.rs',
     "const TRUNCATION = 0b0000_0010_0000_0000", "const TRUNCATION = 0b0000_1000_0000_0000", 'changed'),
    ("mod.rs: targets of two arms of From<u16> for RCODE swapped", D + 'mod.rs',
     "            0 => NoError,\n            1 => FormatError,", "            0 => FormatError,\n            1 => NoError,", 'changed'),
    ("mod.rs: RCODE::Reserved = 15 -> implicit", D + 'mod.rs', "    Reserved = 15,", "    Reserved,", 'changed'),
    ("mod.rs: discriminant CLASS::NONE = 253 (arms untouched)", D + 'mod.rs', "    NONE = 254,", "    NONE = 253,", 'changed'),
    ("mod.rs: OPCODE 3 => Notify", D + 'mod.rs', "            4 => OPCODE::Notify,", "            3 => OPCODE::Notify,", 'changed'),
    ("mod.rs: QTYPE 250 => IXFR", D + 'mod.rs', "            251 => Ok(QTYPE::IXFR),", "            250 => Ok(QTYPE::IXFR),", 'changed'),
    ("resource_record.rs: CACHE_FLUSH bit moved", D + 'resource_record.rs',
     "CACHE_FLUSH: u16 = 0b1000_0000_0000_0000", "CACHE_FLUSH: u16 = 0b0100_0000_0000_0000", 'changed'),
    ("simple-mdns: cache-flush TTL 1 -> 2", 'simple-mdns/src/resource_record_manager.rs',
     "let ttl = if resource.cache_flush {\n            1", "let ttl = if resource.cache_flush {\n            2", 'changed'),
    ("mx.rs: reformatted and commented, same code", R + 'mx.rs',
     """        let preference = u16::from_be_bytes(data[*position..*position + 2].try_into()?);
        *position += 2;""",
     """        let preference = u16::from_be_bytes(   // the preference
            data[ *position .. *position+2 ]
                .try_into()? );
        /* then */ *position
            += 2;""", 'same'),
    ("mod.rs: two arms of From<u16> for RCODE reordered textually, same function", D + 'mod.rs',
     "            0 => NoError,\n            1 => FormatError,", "            1 => FormatError,\n            0 => NoError,", 'changed-harmless'),
]

def run_translator(repo, out):
    p = subprocess.run([sys.executable, TRANSLATE, '--repo', repo, '--out', out], capture_output=True, text=True)
    return p.returncode, (p.stderr.strip() or p.stdout.strip())

class LeanCheck:
    """compile scratch copies (module names TieScratch.*) of a generated file and of Tie.lean against it"""
    def __init__(self, tmp):
        env = lambda *a: subprocess.run(['lake', 'env', *a], cwd=LEAN_DIR, capture_output=True, text=True).stdout.strip()
        self.lean, self.src, self.lib = env('which', 'lean'), os.path.join(tmp, 'leansrc/TieScratch'), os.path.join(tmp, 'leanlib')
        self.env = dict(os.environ, LEAN_PATH=self.lib + os.pathsep + env('printenv', 'LEAN_PATH'))
        os.makedirs(self.src); os.makedirs(os.path.join(self.lib, 'TieScratch'))
        with open(os.path.join(self.src, 'Tie.lean'), 'w') as f:
            f.write(open(TIE).read().replace('import SimpleDnsModel.Generated.FromSource', 'import TieScratch.FromSource'))
    def fails(self, generated):
        """-> None if Tie checks against `generated`, else the first error line"""
        shutil.copy(generated, os.path.join(self.src, 'FromSource.lean'))
        for args in (['FromSource.lean', '-o', os.path.join(self.lib, 'TieScratch/FromSource.olean')], ['Tie.lean']):
            p = subprocess.run([self.lean, *args], cwd=self.src, env=self.env, capture_output=True, text=True)
            if p.returncode != 0:
                err = next((l for l in (p.stdout + p.stderr).splitlines() if 'error' in l), 'error')
                m = re.search(r'Tie\.lean:(\d+):', err)
                thm = m and next((l.split()[1] for l in reversed(open(TIE).read().splitlines()[:int(m.group(1))])
                                  if l.startswith('theorem ')), None)
                return f"theorem {thm} (Tie.lean:{m.group(1)})" if thm else err[:150]
        return None

def main():
    ap = argparse.ArgumentParser(description=__doc__.split('\n')[0])
    ap.add_argument('--repo', default='/repo')
    ap.add_argument('--lean', action='store_true', help='also check every outcome against Props/Tie.lean')
    args = ap.parse_args()
    bad, t0 = 0, time.time()
    with tempfile.TemporaryDirectory(prefix='translate_selftest_') as tmp:
        base = os.path.join(tmp, 'baseline.lean')
        rc, msg = run_translator(args.repo, base)
        print(f"[{'ok' if rc == 0 else 'FAIL'}] translator on {args.repo}: {msg}")
        if rc != 0: return 1
        baseline = open(base).read()
        fresh = os.path.exists(GENERATED) and open(GENERATED).read() == baseline
        print(f"[{'ok' if fresh else 'FAIL'}] committed {os.path.relpath(GENERATED, LEAN_DIR)} is up to date")
        bad += not fresh
        lean = LeanCheck(tmp) if args.lean else None
        if lean:
            f = lean.fails(base)
            print(f"[{'ok' if f is None else 'FAIL'}] Tie.lean checks against the baseline" + (f": {f}" if f else ""))
            bad += f is not None
        for label, rel, old, new, expect in MUTATIONS:
            copy = os.path.join(tmp, 'repo')
            shutil.rmtree(copy, ignore_errors=True)
            for sub in ('simple-dns/src', 'simple-mdns/src'):
                shutil.copytree(os.path.join(args.repo, sub), os.path.join(copy, sub))
            path = os.path.join(copy, rel)
            src = open(path).read()
            if src.count(old) != 1:
                print(f"[FAIL] {label}: mutation does not apply ({src.count(old)} occurrences in {rel})"); bad += 1; continue
            with open(path, 'w') as f: f.write(src.replace(old, new))
            out = os.path.join(tmp, 'mutant.lean')
            if os.path.exists(out): os.remove(out)
            rc, msg = run_translator(copy, out)
            got = 'refused' if rc == 2 else 'error' if rc != 0 else 'same' if open(out).read() == baseline else 'changed'
            ok, note = got == expect.split('-')[0], msg if got == 'refused' else ''
            if ok and lean and got in ('changed', 'same'):
                f = lean.fails(out)
                want_fail = expect == 'changed'
                ok = (f is not None) == want_fail
                note = (f"Tie fails at {f}" if f else "Tie still checks") + ("" if ok else "  <-- unexpected")
            print(f"[{'ok' if ok else 'FAIL'}] {label}: {got}" + (f" (expected {expect})" if not ok else "") + (f"\n       {note}" if note else ""))
            bad += not ok
    print(f"{len(MUTATIONS)} mutations, {bad} failures, {time.time() - t0:.1f} s")
    return 1 if bad else 0

if __name__ == '__main__':
    sys.exit(main())
