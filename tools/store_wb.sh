#!/bin/bash
# store_wb.sh <dir with deliver/<Cxx>-<n>/>...: confirm white-box deliveries (suite green, demo fails with / passes without)
# and store them as seeded/<Cxx>-w<k> with the next free k; prints the mapping
cd /verif
i=0
for top in "$@"; do for d in $top/deliver/*/; do
  [ -f $d/patch.diff ] || continue
  id=$(basename $d); p=${id%%-*}
  k=1; while [ -d seeded/$p-w$k ] || [ -n "${taken[$p-w$k]}" ]; do k=$((k+1)); done
  declare -A taken; taken[$p-w$k]=1; sid=$p-w$k
  crate=simple-dns; case $p in C13|C14|C15|C20) crate=simple-mdns;; esac
  grep -qi "simple-mdns/tests" $d/README.md 2>/dev/null && crate=simple-mdns
  i=$((i+1)); slot=$(( (i-1) % 4 + 1 ))
  ( r=$(SEED_SLOT=$slot python3 tools/seed.py confirm $d $sid $p $crate 2>&1 | grep -E '"confirmed"|Error' | head -1); echo "== $d -> $sid ($crate) $r" ) &
  if [ $((i % 4)) -eq 0 ]; then wait; fi
done; done
wait; echo STORE-DONE
