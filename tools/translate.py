#!/usr/bin/env python3
"""translate.py -- regenerate from the Rust sources the tables the Lean model depends on.

    python3 tools/translate.py [--repo /repo] [--out lean/SimpleDnsModel/Generated/FromSource.lean]

Reads simple-dns/src/dns/{mod,header,name,resource_record}.rs, dns/rdata/*.rs and
simple-mdns/src/resource_record_manager.rs, and writes one Lean file of plain `def`s (namespace
`Dns.Gen`).  `Props/Tie.lean` proves by evaluation that these tables equal the hand-written model's.
Nothing here knows the expected answer: every value is derived from the source text.  Standard library only.

Degradation is item by item.  The items are: every numeric constant; the PacketFlag table; `typeCodes`;
for every flat record type its `parse:<TYPE>` (schema and fields), `write:<TYPE>` and `compressed:<TYPE>`;
every enum table; every arms table together with its default arm; the two simple-mdns constants.
Source text that is not understood unties THAT item only: it is reported on stdout as
`translate.py: UNTIED <item>: <reason>` (file, function, statement), it is listed in `def untied`, and it
is emitted as `none` (constant, default arm), as `[]` (whole table) or left out of the schema tables with
its TYPE code in `untiedParse` / `untiedWrite` / `untiedCompressed`.  Every other item is generated as
usual and Props/Tie.lean still compares it with the model.  The exit code is 0 whenever the output could
be written, 2 for I/O errors or when the source tree is not there at all.
The output is only rewritten when its content changes.

How a body is read: the source is normalised (comments and string contents dropped, whitespace removed
except between two words), split into statements, and each statement is matched against a table of
regular expressions (READS / WRITES below).  In `fn parse` the offsets are checked: the reads between two
`*position += n` must tile exactly n bytes, and they are emitted in the order of the bytes, not of the text.
Statements that neither touch `data` / `position` / `out` nor branch are bookkeeping and are skipped.

OVERRIDES -- rows that exist for one file's style only (each is marked OVERRIDE at its definition):
  loc.rs, nsap.rs  parse from a fixed window `let data = &data[*position..*position + N]` with constant
                   indices (`data[0]`, `[data[1], data[2]]`, `[0, data[4], ..]`, `data[4..8]`): WINDOW_READS
  nsap.rs          writes the low-order bytes of a wider integer: `&self.aa.to_be_bytes()[1..4]`: WRITES 'low'
  txt.rs           the only list of character-strings: loop_kind (parse), W_TXT (write, with the empty case)
  nsec.rs, svcb.rs the only (key, length, value) lists: loop_kind derives the widths from the slice bounds and
                   `strict` from the ordering guard; W_NSEC / W_SVCB derive them from the casts and declared
                   types, `strict` from the `sort_by` / the BTreeMap
General mechanisms, not overrides: `self.helper(out)` is inlined (soa.rs write_common); `rr_wrapper!` is
instantiated textually from macros.rs for every `X:W = code` line and translated like a file.
"""
import argparse, os, re, sys, time

class Refuse(Exception):
    pass

CURRENT = ['']      # what is being translated (for messages about errors that carry no location)
UNTIED = []         # (item, reason): items whose source text was not understood
TIED = []           # names of the items that were translated
ERR = 'Err(_)'      # a default arm that is an error (no variant can have this name; `none` means untied)

def refuse(where, msg):
    raise Refuse(f"{where}: {msg}")

class Untied:
    """the result of an extraction that did not understand the source text"""
    def __init__(self, reason): self.reason = ' '.join(str(reason).split())

def guarded(fn):
    """fn() or, if the source text is refused or has a shape no pattern anticipated, an Untied"""
    try: return fn()
    except Refuse as e: return Untied(e)
    except OSError: raise
    except Exception as e:
        return Untied(f"{CURRENT[0]}: unexpected source text ({type(e).__name__}: {e})")

def record(name, value):
    """book-keeping of one item: value or Untied"""
    if isinstance(value, Untied): UNTIED.append((name, value.reason))
    else: TIED.append(name)
    return value

def attempt(name, fn, default=None):
    """extraction of one independent item: what is not understood unties this item only"""
    v = record(name, guarded(fn))
    return default if isinstance(v, Untied) else v

# ---------------------------------------------------------------- normalisation of Rust source

def strip(src):
    """comments removed, string literals emptied, the `#[cfg(test)] mod` tail cut off"""
    out, i, n = [], 0, len(src)
    while i < n:
        c = src[i]
        if c == '"':
            i += 1
            while i < n and src[i] != '"':
                i += 2 if src[i] == '\\' else 1
            out.append('""'); i += 1
        elif c == "'" and re.match(r"'(\\.|[^\\'])'", src[i:]):
            m = re.match(r"'(\\.|[^\\'])'", src[i:]); out.append("'c'"); i += m.end()
        elif src.startswith('//', i):
            j = src.find('\n', i); i = n if j < 0 else j
        elif src.startswith('/*', i):
            j = src.find('*/', i); i = n if j < 0 else j + 2
        else:
            out.append(c); i += 1
    text = ''.join(out)
    m = re.search(r'#\[cfg\(test\)\]\s*(pub\s+)?mod\b', text)
    return text[:m.start()] if m else text

def compact(src):
    """whitespace-insensitive form: tokens joined, one space only between two word tokens"""
    toks = re.findall(r"'?[A-Za-z_0-9]+|\S", strip(src))
    out = []
    for t in toks:
        if out and re.match(r'\w', t) and re.search(r'\w$', out[-1]):
            out.append(' ')
        out.append(t)
    return ''.join(out)

def block_end(text, i):
    """text[i] == '{' -> index just after the matching '}'"""
    depth = 0
    for j in range(i, len(text)):
        if text[j] == '{': depth += 1
        elif text[j] == '}':
            depth -= 1
            if depth == 0: return j + 1
    raise Refuse(f"{CURRENT[0]}: unbalanced braces")

def block_after(text, header_re, where, required=True):
    """body (without the outer braces) of the first `{...}` after a match of header_re"""
    m = re.search(header_re, text)
    if not m:
        if required: refuse(where, f"no match for /{header_re}/")
        return None
    i = text.index('{', m.end() - 1)
    return text[i + 1:block_end(text, i) - 1]

BLOCK = r'(if|while|for|loop|match)\b'

def statements(body):
    """split a function body into statements; `if/while/for/match` statements keep their blocks"""
    out, i, n = [], 0, len(body)
    while i < n:
        start, depth = i, 0
        is_block = re.match(BLOCK, body[i:]) is not None
        while i < n:
            c = body[i]
            if c in '([': depth += 1
            elif c in ')]': depth -= 1
            elif c == '{':
                i = block_end(body, i)
                if is_block and depth == 0:
                    if body.startswith('else', i): continue
                    break
                continue
            elif c == ';' and depth == 0:
                i += 1; break
            i += 1
        if body[start:i].strip(';'): out.append(body[start:i])
    return out

def split_top(s, angle=True):
    """split on commas that are not nested in [] () {} (and <> when `angle`: types, not expressions)"""
    parts, depth, cur = [], 0, ''
    for c in s:
        if c in ('<[({' if angle else '[({'): depth += 1
        elif c in ('>])}' if angle else '])}'): depth -= 1
        if c == ',' and depth == 0: parts.append(cur); cur = ''
        else: cur += c
    return [p for p in parts + [cur] if p]

def num(lit):
    lit = lit.replace('_', '')
    return int(lit[2:], 2) if lit.startswith('0b') else int(lit, 16) if lit.startswith('0x') else int(lit)

SIZE = {'u8': 1, 'u16': 2, 'u32': 4, 'i32': 4, 'u64': 8, 'u128': 16}
INT = r'(u8|u16|u32|i32|u64|u128)'
OFF = r'\*position(?:\+(\d+))?'          # `*position` or `*position + N`

def struct_fields(text, name, where):
    """field name -> declared type; a tuple struct `X(pub W<'a>)` has the field `0`"""
    m = re.search(rf"struct {name}\b(?:<[^>]*>)?\(([^;]*)\);", text)
    if m: return {str(k): re.sub(r'^pub(\([^)]*\))? ?', '', t) for k, t in enumerate(split_top(m.group(1)))}
    body = block_after(text, rf"struct {name}\b(?:<[^>]*>)?\{{", where)
    return dict(re.sub(r'^pub(\([^)]*\))? ?', '', f).split(':', 1) for f in split_top(body))

# ---------------------------------------------------------------- fn parse -> [(FKind, variable)]
# FKinds are tuples: ('int', w) ('charstr',) ('name',) ('rest',) ('strs',) ('tlvs', kw, lw, strict) ('splice', T)

# Table of read expressions on the compact text; each is replaced by <R>, first row wins.
READS = [
    ('int',     INT + r'::from_be_bytes\(data\[' + OFF + r'\.\.' + OFF + r'\]\.try_into\(\)\?,?\)'),
    ('array',   r'data\[' + OFF + r'\.\.' + OFF + r'\]\.try_into\(\)\?'),          # eui.rs: [u8; N]
    ('rest',    r'&data\[' + OFF + r'\.\.\]'),
    ('slice',   r'&data\[' + OFF + r'\.\.' + OFF + r'\+(\w+)(?: as usize)?\]'),    # loop bodies only
    ('byte',    r'data\[' + OFF + r'\]'),
    ('charstr', r'CharacterString::parse\(data,position\)\?'),
    ('name',    r'Name::parse\(data,position\)\?'),
    ('deleg',   r'(\w+)::parse\(data,position\)\.map\(\|n\|\w+\(n\)\)'),           # rr_wrapper! body
]
# OVERRIDE loc.rs, nsap.rs: these two parse from a fixed window `let data = &data[*position..*position + N]`
# with constant indices; the byte ranges are derived from the index sets and must tile 0..N.
WINDOW_OPEN = r'let data=&data\[\*position\.\.\*position\+(\d+)\];$'
WINDOW_READS = [
    ('wbyte',  INT + r'::from_be\(data\[(\d+)\]\)'),
    ('wlist',  INT + r'::from_be_bytes\(\[((?:0,)*)((?:data\[\d+\],?)+)\]\)'),
    ('wrange', INT + r'::from_be_bytes\(data\[(\d+)\.\.(\d+)\]\.try_into\(\)\?\)'),
]
# what may surround a read
SHAPES = [r'let(?: mut)? (\w+)=<R>;', r'let (\w+)=Cow::Borrowed\(<R>\);', r'let (\w+)=usize::from\(<R>\);',
          r'let (\w+)=<R> as usize;', r'()\w+\.insert\(\w+,Cow::Borrowed\(<R>\),?\);', r'()<R>']
GUARD = r'if ?(.+?)\{return Err\([^{}]*\);?\}$'
ADVANCE = r'\*position\+=(?:(\d+)|(?:(\d+)\+)?(\w+)(?:\.len\(\)| as usize)?);$'
RELEVANT_PARSE = r'\bdata\[|\bdata\.(get|iter|split|chunks)|parse\(|\*position[-+*/]?=(?!=)'

def find_reads(st, rows, where):
    found = []
    for kind, rx in rows:
        def sub(m):
            found.append((m.start(), kind, m.groups())); return '<R>' + '\0' * (m.end() - m.start() - 3)
        st = re.sub(rx, sub, st)
    return st.replace('\0', ''), [f[1:] for f in sorted(found)]

def parse_body(where, body, in_loop=False):
    """-> ([(FKind, var)], guards): the wire reads of a parse body in the order of the bytes read"""
    fields, pending, guards, window = [], [], [], None

    def flush(n, lenvar=None):
        """`*position += n` or `*position += n + <lenvar>`: the pending reads must tile exactly that"""
        pending.sort(key=lambda r: r[0])
        at = 0
        for k, (a, b, fk, var) in enumerate(pending):
            if a != at or (b is None and k != len(pending) - 1):
                refuse(where, f"reads since the last `*position +=` do not tile: expected offset {at}, found {a}")
            at = b
        if at is None:      # open-ended last read: the advance must be its start plus its own length
            a, _, fk, var = pending[-1]
            ok = a == n and lenvar == (var if fk == ('rest',) else fk[1])
        else: ok = at == n and lenvar is None
        if not ok: refuse(where, f"`*position += {n}{'+' + lenvar if lenvar else ''}` does not match the reads before it")
        fields.extend((fk, var) for _, _, fk, var in pending)
        pending.clear()

    for st in statements(body):
        m = re.match(r'while ?(?:\*position<data\.len\(\)|data\.len\(\)>\*position)\{(.*)\}$', st)
        if m and not in_loop and not pending and window is None:
            fields.append(loop_kind(where, m.group(1), body)); continue
        m = re.match(WINDOW_OPEN, st)
        if m and not pending and window is None:
            window = {'size': int(m.group(1)), 'at': len(fields), 'reads': [], 'advanced': False}; continue
        shape, reads = find_reads(st, WINDOW_READS if window else READS, where)
        if reads:
            var = next((m.group(1) for s in SHAPES for m in [re.match(s + '$', shape)] if m), None)
            if len(reads) != 1 or var is None: refuse(where, f"unrecognised read statement: {st}")
            kind, g = reads[0]
            off = lambda x: int(x) if x else 0
            if kind == 'int':
                a, b = off(g[1]), off(g[2])
                if b - a != SIZE[g[0]]: refuse(where, f"{g[0]} read from {b - a} bytes: {st}")
                pending.append((a, b, ('int', b - a), var))
            elif kind == 'array': pending.append((off(g[0]), off(g[1]), ('int', off(g[1]) - off(g[0])), var))
            elif kind == 'byte': pending.append((off(g[0]), off(g[0]) + 1, ('int', 1), var))
            elif kind == 'rest': pending.append((off(g[0]), None, ('rest',), var))
            elif kind == 'slice':
                if not in_loop or off(g[0]) != off(g[1]): refuse(where, f"unrecognised read statement: {st}")
                pending.append((off(g[0]), None, ('slice', g[2]), var))
            elif kind in ('charstr', 'name', 'deleg'):
                if pending: refuse(where, f"`{st}` while earlier reads have not advanced *position")
                fk = {'Name': ('name',), 'CharacterString': ('charstr',)}.get(g[0], ('splice', g[0])) if kind == 'deleg' else (kind,)
                fields.append((fk, var or '0'))
            elif kind == 'wbyte': window['reads'].append((int(g[1]), int(g[1]) + 1, var))
            elif kind == 'wrange':
                if int(g[2]) - int(g[1]) != SIZE[g[0]]: refuse(where, f"{g[0]} read from {g[1]}..{g[2]}: {st}")
                window['reads'].append((int(g[1]), int(g[2]), var))
            elif kind == 'wlist':
                idx = [int(x) for x in re.findall(r'data\[(\d+)\]', g[2])]
                if g[1].count('0') + len(idx) != SIZE[g[0]] or idx != list(range(idx[0], idx[0] + len(idx))):
                    refuse(where, f"byte list is not a zero-padded run of consecutive indices: {st}")
                window['reads'].append((idx[0], idx[-1] + 1, var))
            continue
        m = re.match(ADVANCE, st)
        if m:
            if window:
                if window['advanced'] or m.group(1) is None or int(m.group(1)) != window['size']:
                    refuse(where, f"`{st}` does not match the {window['size']}-byte window")
                window['advanced'] = True
            elif m.group(1) is not None: flush(int(m.group(1)))
            else: flush(int(m.group(2) or 0), m.group(3))
            continue
        m = re.match(GUARD, st)
        if m and not re.search(RELEVANT_PARSE, st):
            guards.append(m.group(1)); continue
        if re.search(RELEVANT_PARSE, st) or re.match(BLOCK, st):
            refuse(where, f"unrecognised statement (touches the input or branches): {st}")
        guards.append(st)          # bookkeeping (`let mut v = Vec::new()`, `Ok(Self {..})`, ...): kept for binding
    if pending: refuse(where, f"reads {[p[2] for p in pending]} are not followed by a `*position +=`")
    if window:
        at = 0
        for a, b, var in sorted(window['reads']):
            if a != at: refuse(where, f"window reads do not tile 0..{window['size']}: gap or overlap at {at}")
            at = b
        if at != window['size'] or not window['advanced']: refuse(where, f"window of {window['size']} bytes: reads cover {at}")
        fields[window['at']:window['at']] = [(('int', b - a), var) for a, b, var in sorted(window['reads'])]
    return fields, guards

def loop_kind(where, body, fn_body):
    """a `while *position < data.len()` loop (OVERRIDE txt.rs, nsec.rs, svcb.rs: the only repetitions).
    [charstr] -> strs;  [int kw (key), int lw (len), slice of len bytes] -> tlvs kw lw strict, where
    strict = a guard rejects every key that is not greater than the previous one."""
    fields, rest = parse_body(where + " (loop)", body, in_loop=True)
    coll = re.search(r'(\w+)\.(?:push|insert)\(', body)
    if not coll: refuse(where, "loop does not collect what it reads")
    coll, kinds = coll.group(1), [f[0] for f in fields]
    if kinds == [('charstr',)] and f'{coll}.push({fields[0][1]});' in rest:
        return ('strs',), coll
    if len(fields) == 3 and kinds[0][0] == kinds[1][0] == 'int' and kinds[2] == ('slice', fields[1][1]):
        key, strict = fields[0][1], False
        for g in (re.sub(r"<'\w+>", '', g) for g in rest if re.search(rf'\b{fields[0][1]}\b', g)):
            m = re.match(rf'i32::from\({key}\)<=(\w+)$', g)
            if m:     # svcb.rs; the check only bites when the previous key is kept up to date
                strict |= f'{m.group(1)}=i32::from({key});' in rest and f'let mut {m.group(1)}=-1;' in fn_body
            elif re.match(rf'{coll}\.last\(\)\.is_some_and\(\|(\w+)(?::[^|]*)?\|\1\.\w+>={key}\)$', g):
                strict = True                                                                       # nsec.rs
            elif not re.match(rf'\w+=i32::from\({key}\);$|{coll}\.(push|insert)\(', g):
                refuse(where, f"unrecognised use of the key `{key}` in the loop: {g}")
        return ('tlvs', kinds[0][1], kinds[1][1], strict), coll
    refuse(where, f"unrecognised loop body, reads {kinds}")

def bind(where, fields, tail, struct):
    """the struct field each value read is stored in, from the final `Ok(Self { f, g: expr })`"""
    m = next((m for s in reversed(tail) for m in [re.match(r'Ok\(\w+\{(.*)\}\)$', s)] if m), None)
    if not m:                                        # rr_wrapper!: `$w::parse(..).map(|n| $t(n))`, field `0`
        if [v for _, v in fields] != ['0'] or list(struct) != ['0']: refuse(where, "no final `Ok(Self { .. })`")
        return fields
    inits = [i.split(':', 1) if ':' in i else [i, i] for i in split_top(m.group(1), angle=False)]
    out = []
    for fk, var in fields:
        fs = [f for f, e in inits if re.search(rf'\b{var}\b', e)]
        if len(fs) != 1 or fs[0] not in struct: refuse(where, f"value `{var}` is stored in fields {fs}")
        out.append((fk, fs[0]))
    return out

# ---------------------------------------------------------------- fn write_to -> [(FKind, field)]

TAIL = r'(\?;|;|\?|\.map_err\(crate::SimpleDnsError::from\))*$'
# Table of write statements (tail `?;` / `.map_err(..)` removed); `{f}` is a struct field.
WRITES = [
    ('int',    r'out\.write_all\(&self\.(\w+)\.to_be_bytes\(\)\)'),
    ('low',    r'out\.write_all\(&self\.(\w+)\.to_be_bytes\(\)\[(\d+)\.\.(\d+)\]\)'),  # OVERRIDE nsap.rs: low-order bytes
    ('list',   r'out\.write_all\(&\[((?:self\.\w+(?:\.to_be\(\))?,?)+)\]\)'),        # `.to_be()` on u8: loc.rs, nsap.rs
    ('raw',    r'out\.write_all\(&self\.(\w+)\)'),
    ('sub',    r'self\.(\w+)\.write_to\(out\)'),
    ('subc',   r'self\.(\w+)\.write_compressed_to\(out,name_refs\)'),
    ('helper', r'self\.(\w+)\(out\)'),
]
# OVERRIDE txt.rs: no strings are written as one empty string, else each string in order
W_TXT = r'if self\.(\w+)\.is_empty\(\)\{out\.write_all\(&\[0\]\)\?;\}else\{for (\w+) in&self\.\1\{\2\.write_to\(out\)\?;\}\}$'
# OVERRIDE svcb.rs: (key, len as u16, value) for each entry of the BTreeMap (iterates in key order)
W_SVCB = (r'for\((\w+),(\w+)\)in&self\.(\w+)\{out\.write_all\(&\1\.to_be_bytes\(\)\)\?;let (\w+)=\2\.len\(\)as ' + INT +
          r';out\.write_all\(&\4\.to_be_bytes\(\)\)\?;out\.write_all\(\2\)\?;\}$')
# OVERRIDE nsec.rs: [key], [len as u8], value for each element of a Vec (sorted by key first, or not)
W_NSEC = (r'for (\w+) in (?:(\w+)|self\.(\w+))\.iter\(\)\{out\.write_all\(&\[\1\.(\w+)\]\)\?;'
          r'out\.write_all\(&\[\1\.(\w+)\.len\(\)as ' + INT + r'\]\)\?;out\.write_all\(&\1\.\5\)\?;\};?$')

def write_body(where, text, body, struct, compressed, schemas):
    fields = []
    for st in statements(body):
        core = re.sub(TAIL, '', st)
        m = next(((k, m) for k, rx in WRITES for m in [re.match(rx + '$', core)] if m), None)
        if m:
            kind, m = m
            ty = struct.get(m.group(1), '') if kind not in ('list', 'helper') else ''
            if kind in ('int', 'low', 'raw', 'sub', 'subc') and m.group(1) not in struct:
                refuse(where, f"`{st}` writes an unknown field")
            if kind == 'subc' and not compressed: refuse(where, f"`{st}` outside write_compressed_to")
            if kind == 'int' and ty in SIZE: fields.append((('int', SIZE[ty]), m.group(1)))
            elif kind == 'low' and ty in SIZE and int(m.group(3)) == SIZE[ty]:
                fields.append((('int', SIZE[ty] - int(m.group(2))), m.group(1)))
            elif kind == 'list':
                for f in re.findall(r'self\.(\w+)', m.group(1)):
                    if struct.get(f) != 'u8': refuse(where, f"`{st}`: field {f} is not a u8")
                    fields.append((('int', 1), f))
            elif kind == 'raw' and re.match(r"Cow<'\w+,\[u8\]>$", ty): fields.append((('rest',), m.group(1)))
            elif kind == 'raw' and re.match(r'\[u8;(\d+)\]$', ty):
                fields.append((('int', int(re.match(r'\[u8;(\d+)\]$', ty).group(1))), m.group(1)))
            elif kind in ('sub', 'subc') and re.match(r"CharacterString<'\w+>$", ty): fields.append((('charstr',), m.group(1)))
            elif kind in ('sub', 'subc') and re.match(r"Name<'\w+>$", ty):
                fields.append((('name', kind == 'subc'), m.group(1)))
            elif kind in ('sub', 'subc') and re.match(r"(\w+)<'\w+>$", ty) and re.match(r"(\w+)<", ty).group(1) in schemas:
                oname = re.match(r"(\w+)<", ty).group(1)
                other = schemas[oname]
                key = 'comp' if kind == 'subc' and other['comp'] is not None else 'write'
                if isinstance(other[key], Untied):
                    refuse(where, f"`{st}` hands over to {oname}, whose {'write_compressed_to' if key == 'comp' else 'write_to'} is untied")
                fields.extend(other[key])
            elif kind == 'helper' and compressed is not None:
                hb = block_after(text, rf'\bfn {m.group(1)}\b', where)
                fields.extend(write_body(f"{where} -> fn {m.group(1)}", text, hb, struct, None, schemas))
            else: refuse(where, f"unrecognised write statement (field type `{ty}`): {st}")
            continue
        m = re.match(W_TXT, st)
        if m and re.match(r"Vec<CharacterString<'\w+>>$", struct.get(m.group(1), '')):
            fields.append((('strs',), m.group(1))); continue
        m = re.match(W_SVCB, st)
        mt = m and re.match(r"BTreeMap<" + INT + r",Cow<'\w+,\[u8\]>>$", struct.get(m.group(3), ''))
        if mt:
            fields.append((('tlvs', SIZE[mt.group(1)], SIZE[m.group(5)], True), m.group(3))); continue
        m = re.match(W_NSEC, st)
        if m:
            var, fld, key = m.group(2), m.group(3), m.group(4)
            if var:
                c = re.search(rf'let mut {var}=self\.(\w+)\.clone\(\);', body)
                fld = c and c.group(1)
            strict = bool(var and f'{var}.sort_by(|a,b|a.{key}.cmp(&b.{key}));' in body)
            et = fld and re.match(r"Vec<(\w+)<'\w+>>$", struct.get(fld, ''))
            elem = et and struct_fields(text, et.group(1), where)
            if elem and elem.get(key) in SIZE and re.match(r"Cow<'\w+,\[u8\]>$", elem.get(m.group(5), '')):
                fields.append((('tlvs', SIZE[elem[key]], SIZE[m.group(6)], strict), fld)); continue
        if re.search(r'\bout\b', st) or (re.match(BLOCK, st) and not re.match(GUARD, st)):
            refuse(where, f"unrecognised write statement: {st}")
    return fields

# ---------------------------------------------------------------- one RR type

def translate_type(name, text, schemas, label, pre):
    """parse / write / write_compressed schemas of the RR type `name` whose (compact) source is `text`:
    {'parse': fields, 'write': fields, 'comp': fields or None (no override)}, each of them possibly Untied.
    `text` may itself be Untied; `pre` holds what is required of the dispatch in rdata_enum! (None or Untied)."""
    CURRENT[0] = f"{label}: {name}"
    w = f"{label}: {name}::"
    def common():
        if isinstance(text, Untied): raise Refuse(text.reason)
        struct = struct_fields(text, name, f"{label}: struct {name}")
        impl = block_after(text, rf"impl(?:<[^>]*>)? ?WireFormat<[^>]*>for {name}\b(?:<[^>]*>)?\{{", f"{label}: impl WireFormat for {name}")
        return struct, impl
    c = guarded(common)
    if isinstance(c, Untied): return {'parse': c, 'write': c, 'comp': c}
    struct, impl = c
    gnums = []
    def parse():
        pf, tail = parse_body(w + "parse", block_after(impl, r'\bfn parse\b', w + "parse"))
        # the up-front length guards `*position + N > data.len()` (either way round), in textual order
        del gnums[:]
        for g in tail:
            if 'position' in g and 'data.len()' in g:
                m = re.match(r'(?:\*position\+(\d+)>data\.len\(\)|data\.len\(\)<\*position\+(\d+))$', g)
                gnums.append(int(m.group(1) or m.group(2)) if m else None)
        return bind(w + "parse", pf, tail, struct)
    def write():
        return write_body(w + "write_to", text, block_after(impl, r'\bfn write_to\b', w + "write_to"), struct, False, schemas)
    def comp():
        cbody = block_after(impl, r'\bfn write_compressed_to\b', w, required=False)
        return None if cbody is None else write_body(w + "write_compressed_to", text, cbody, struct, True, schemas)
    raw = {'parse': guarded(parse), 'write': guarded(write), 'comp': guarded(comp)}
    for k in raw:
        if isinstance(pre[k], Untied) and not isinstance(raw[k], Untied): raw[k] = pre[k]
    cf = raw['comp']
    # a name is compressible iff write_compressed_to hands that field to Name::write_compressed_to
    cflag = {} if isinstance(cf, Untied) else {f: fk[1] for fk, f in (cf or []) if fk[0] == 'name'}
    def flagged(fields):
        if fields is None or isinstance(fields, Untied): return fields
        out = []
        for fk, f in fields:
            if fk[0] == 'splice':
                if fk[1] not in schemas: return Untied(f"{w} delegates to unknown type {fk[1]}")
                if isinstance(schemas[fk[1]]['parse'], Untied): return Untied(f"{w} delegates to {fk[1]}, whose parse is untied")
                out.extend(schemas[fk[1]]['parse'])
            elif fk[0] == 'name':
                if isinstance(cf, Untied):
                    return Untied(f"{w} whether the name `{f}` is compressed is decided by write_compressed_to, which is untied ({cf.reason})")
                out.append((('name', cflag.get(f, False)), f))
            else: out.append((fk, f))
        return out
    out = {k: flagged(v) for k, v in raw.items()}
    spliced = not isinstance(raw['parse'], Untied) and any(fk[0] == 'splice' for fk, _ in raw['parse'])
    out['guards'] = None if spliced else (Untied(f"{w}parse: {raw['parse'].reason}") if isinstance(raw['parse'], Untied) else
                     Untied(f"{w}parse: a length guard is not of the form `*position + N > data.len()`") if None in gnums else list(gnums))
    return out

# ---------------------------------------------------------------- constants and enums

def const(text, name, where):
    m = re.search(rf'\bconst {name}(?::\w+)?=(\w+);', text)
    return num(m.group(1)) if m else refuse(where, f"constant {name} not found")

def enum_table(text, name, where):
    """variant -> discriminant (an omitted discriminant is the previous one plus one)"""
    out, prev = [], -1
    for v in split_top(re.sub(r'#\[[^\]]*\]', '', block_after(text, rf'\benum {name}\{{', where))):
        m = re.match(r'(\w+)(?:=(\w+))?$', v)
        if not m: refuse(where, f"variant `{v}` of enum {name} is not a unit variant")
        prev = num(m.group(2)) if m.group(2) else prev + 1
        out.append((m.group(1), prev))
    # declaration order is immaterial once the discriminants are computed
    return sorted(out, key=lambda e: e[1])

def match_arms(text, impl_re, where):
    """the `match` of a From<u16>/TryFrom<u16> impl -> ([(code, variant)], default variant or None for Err)"""
    body = block_after(block_after(text, impl_re, where), r'\bmatch \w+\{', where)
    arms, default = [], 'missing'
    for arm in split_top(body, angle=False):
        m = re.match(r'(\w+)=>(?:Ok\()?(?:\w+::)*(\w+)\)?$', arm)
        if m and re.match(r'\d', m.group(1)) and default == 'missing': arms.append((num(m.group(1)), m.group(2)))
        elif m and re.match(r'_|[a-z]\w*$', m.group(1)): default = m.group(2)
        elif re.match(r'[a-z_]\w*=>Err\(', arm): default = None
        elif re.match(r'[a-z]\w*=>(match|CLASS::try_from)', arm): default = arm.split('=>', 1)[1]   # QTYPE / QCLASS fall through
        else: refuse(where, f"unrecognised match arm: {arm}")
    if default == 'missing': refuse(where, "no default arm")
    # literal arms are pairwise disjoint unless a literal repeats, in which case the first one wins:
    # the order in which they are written does not matter, so the table is emitted in code order
    first = {}
    for code, variant in arms: first.setdefault(code, variant)
    return sorted(first.items()), default

# ---------------------------------------------------------------- Lean output

def lean_kind(fk):
    return {'int': lambda: f".int {fk[1]}", 'charstr': lambda: ".charstr", 'rest': lambda: ".rest", 'strs': lambda: ".strs",
            'name': lambda: f".name {'true' if fk[1] else 'false'}",
            'tlvs': lambda: f".tlvs {fk[1]} {fk[2]} {'true' if fk[3] else 'false'}"}[fk[0]]()

def lean_list(items, per_line=1, indent='  '):
    if not items: return '[]'
    rows = [', '.join(items[i:i + per_line]) for i in range(0, len(items), per_line)]
    return '[\n' + ',\n'.join(indent + r for r in rows) + ']'

NOT_FLAT = ('OPT', 'IPSECKEY', 'NULL')     # modelled function by function, not by a schema

def generate(repo):
    del UNTIED[:], TIED[:]
    dns = os.path.join(repo, 'simple-dns/src/dns')
    if not os.path.isdir(os.path.join(dns, 'rdata')):
        raise OSError(f"{os.path.join(dns, 'rdata')}: the sources of simple-dns are not there")
    cache = {}
    def read(p, raw=False):
        """(compact) text of a source file; a file that is not there unties the items read from it"""
        if p not in cache:
            try: cache[p] = open(os.path.join(repo, p), encoding='utf-8').read()
            except (FileNotFoundError, NotADirectoryError, IsADirectoryError): cache[p] = None
            cache[p, 'compact'] = None if cache[p] is None else compact(cache[p])
        if cache[p] is None: refuse(p, "file not found")
        return cache[p] if raw else cache[p, 'compact']
    MOD, HEADER, NAME = 'simple-dns/src/dns/mod.rs', 'simple-dns/src/dns/header.rs', 'simple-dns/src/dns/name.rs'
    RR, OPT = 'simple-dns/src/dns/resource_record.rs', 'simple-dns/src/dns/rdata/opt.rs'
    RMOD, MACROS = 'simple-dns/src/dns/rdata/mod.rs', 'simple-dns/src/dns/rdata/macros.rs'
    MDNS = 'simple-mdns/src/resource_record_manager.rs'

    CURRENT[0] = 'rdata/mod.rs, rdata/macros.rs'
    # 1. type codes: the rdata_enum! list, `impl RR for X { const TYPE_CODE }`, rr_wrapper! lines
    W = 'rdata/mod.rs'
    def macro_arms(*pats):
        def check():
            for pat in pats:
                if not re.search(pat, read(MACROS)): refuse('rdata/macros.rs: rdata_enum!', f"expected arm /{pat}/ not found")
        return check
    variants = guarded(lambda: [re.match(r'\w+', v).group(0) for v in split_top(block_after(read(RMOD), r'macros::rdata_enum!\{', W))])
    wrappers = guarded(lambda: {m.group(1): (m.group(2), num(m.group(3)))
                                for m in re.finditer(r'macros::rr_wrapper!\{(?:#\[[^\]]*\])*(\w+):(\w+)=(\w+)\}', read(RMOD))})
    if isinstance(wrappers, Untied): wrappers = {}
    files, code = {}, {}       # whatever TYPE_CODE can be read, type by type
    for fn in sorted(os.listdir(os.path.join(dns, 'rdata'))):
        if fn.endswith('.rs') and fn not in ('mod.rs', 'macros.rs'):
            text = guarded(lambda: read(f'simple-dns/src/dns/rdata/{fn}'))
            if isinstance(text, Untied): continue
            for m in re.finditer(r"impl(?:<[^>]*>)? ?RR for (\w+)(?:<[^>]*>)?\{const TYPE_CODE:u16=(\w+);\}", text):
                c = guarded(lambda: num(m.group(2)))
                if not isinstance(c, Untied): files[m.group(1)], code[m.group(1)] = (fn, text), c
    for t, (_, c) in wrappers.items(): code[t] = c
    def get_type_codes():
        if isinstance(variants, Untied): raise Refuse(variants.reason)
        macro_arms(r'\$i::TYPE_CODE=>TYPE::\$i,', r'TYPE::\$i=>\$i::TYPE_CODE,', r'NULL::TYPE_CODE=>TYPE::NULL,')()
        if read(RMOD).count('macros::rr_wrapper!') != len(wrappers): refuse(W, "an rr_wrapper! invocation was not understood")
        missing = [v for v in variants + ['NULL'] if v not in code]
        if missing: refuse(W, f"no TYPE_CODE found for {missing}")
        return [(v, code[v]) for v in variants + ['NULL']]
    type_codes = attempt('typeCodes', get_type_codes, [])

    # 2./3. schemas of the flat types (wrapped types first, so that wrappers can splice them), item by item
    pre = {'parse': guarded(macro_arms(r'TYPE::\$i=>RData::\$i\(\$i::parse\(data,position\)\?\),')),
           'write': guarded(macro_arms(r'RData::\$i\(data\)=>data\.write_to\(out\),')),
           'comp': guarded(macro_arms(r'RData::\$i\(data\)=>data\.write_compressed_to\(out,name_refs\),'))}
    if isinstance(variants, Untied):    # no list of variants: every type whose TYPE_CODE was found, none of them tied
        flat = [v for v in sorted(code, key=lambda v: code[v]) if v not in NOT_FLAT]
        u = Untied(f"the list of the RData variants was not understood ({variants.reason})")
        pre = {'parse': u, 'write': u, 'comp': u}
    else:
        flat = [v for v in variants if v not in NOT_FLAT]
    schemas = {}
    for v in sorted(flat, key=lambda v: v in wrappers):
        if v in wrappers:
            def inst():
                raw = read(MACROS, raw=True).replace('$t', v).replace('$w', wrappers[v][0]).replace('$c', str(wrappers[v][1]))
                return block_after(compact(raw), r'macro_rules!rr_wrapper\{\([^)]*\)=>', 'rdata/macros.rs: rr_wrapper!')
            schemas[v] = translate_type(v, guarded(inst), schemas, f"rdata/macros.rs: rr_wrapper! {v}", pre)
        elif v in files:
            schemas[v] = translate_type(v, files[v][1], schemas, f"rdata/{files[v][0]}", pre)
        else:
            u = Untied(f"{W}: no `impl RR for {v} {{ const TYPE_CODE: u16 = <literal>; }}` found in rdata/*.rs")
            schemas[v] = {'parse': u, 'write': u, 'comp': u}
    untied_codes = {'parse': [], 'write': [], 'comp': []}
    for v in flat:
        for key, prefix in (('parse', 'parse'), ('write', 'write'), ('comp', 'compressed')):
            if isinstance(record(f"{prefix}:{v}", schemas[v][key]), Untied) and v in code:
                untied_codes[key].append(code[v])
    guard_rows = []
    for v in flat:
        gv = schemas[v].get('guards') if isinstance(schemas[v], dict) else None
        if gv is None or isinstance(schemas[v]['parse'], Untied): continue      # no own body; or untied together with parse:<T>
        if not isinstance(record(f"guards:{v}", gv), Untied) and v in code: guard_rows.append(f"({code[v]}, [{', '.join(str(x) for x in gv)}])")
    table = lambda key, what: lean_list([f"({code[v]}, [{', '.join(what(e) for e in schemas[v][key])}])" for v in flat
                                         if schemas[v][key] is not None and not isinstance(schemas[v][key], Untied)])
    kinds, names = (lambda e: lean_kind(e[0])), (lambda e: f'"{e[1]}"')

    # 5. constants, one by one
    CURRENT[0] = 'constants and enums (dns/mod.rs, header.rs, name.rs, resource_record.rs, rdata/opt.rs, simple-mdns)'
    def get_flags():
        block = block_after(read(MOD), r'struct PacketFlag:u16\{', 'mod.rs: PacketFlag')
        flags = [(m.group(1), num(m.group(2))) for m in re.finditer(r'\bconst (\w+)=(\w+);', block)]
        if not flags or len(flags) != len(re.findall(r'\bconst\b', block)):
            refuse('mod.rs: PacketFlag', "a constant is not of the form `const NAME = <literal>;`")
        return flags
    flags = attempt('packetFlags', get_flags, [])
    def get_flush_ttl():
        m = re.search(r'fn add_cached_resource\b', read(MDNS)) and re.search(r'let ttl=if resource\.cache_flush\{(\d+)\}else\{resource\.ttl\};let \w+=ExpirationInfo::new\(ttl\);', read(MDNS))
        if not m: refuse('simple-mdns/src/resource_record_manager.rs: add_cached_resource', "TTL selection for cache-flush records not recognised")
        return int(m.group(1))
    def get_ttl_unit():
        m2 = re.search(r'let expire_at=added\+Duration::from_(secs|millis)\(ttl\);', read(MDNS))
        if not m2: refuse('simple-mdns/src/resource_record_manager.rs: ExpirationInfo::new', "expiry computation not recognised")
        return 1000 if m2.group(1) == 'secs' else 1
    C = lambda path, name, where: (lambda: const(read(path), name, where))
    consts = [(n, attempt(n, fn), f) for n, fn, f in [
              ('maxLabel', C(MOD, 'MAX_LABEL_LENGTH', 'mod.rs'), 'd'), ('maxName', C(MOD, 'MAX_NAME_LENGTH', 'mod.rs'), 'd'),
              ('maxCharStr', C(MOD, 'MAX_CHARACTER_STRING_LENGTH', 'mod.rs'), 'd'), ('maxNull', C(MOD, 'MAX_NULL_LENGTH', 'mod.rs'), 'd'),
              ('maxSvcParam', C(MOD, 'MAX_SVC_PARAM_VALUE_LENGTH', 'mod.rs'), 'd'),
              ('pointerMask', C(NAME, 'POINTER_MASK', 'name.rs'), 'x'), ('pointerMaskU16', C(NAME, 'POINTER_MASK_U16', 'name.rs'), 'x'),
              ('maxPointerOffset', C(NAME, 'MAX_POINTER_OFFSET', 'name.rs'), 'x'),
              ('opcodeMask', C(HEADER, 'OPCODE_MASK', 'header.rs'), 'x'), ('reservedMask', C(HEADER, 'RESERVED_MASK', 'header.rs'), 'x'),
              ('responseCodeMask', C(HEADER, 'RESPONSE_CODE_MASK', 'header.rs'), 'x'),
              ('optRcodeMask', C(OPT, 'RCODE_MASK', 'rdata/opt.rs'), 'x'), ('optVersionMask', C(OPT, 'VERSION_MASK', 'rdata/opt.rs'), 'x'),
              ('cacheFlushBit', C(RR, 'CACHE_FLUSH', 'resource_record.rs'), 'x'),
              ('cacheFlushTtl', get_flush_ttl, 'd'), ('ttlUnitMillis', get_ttl_unit, 'd')]]

    # 6. enum tables; an arms table and its default arm are one item
    I = lambda n, tr: rf'impl {tr}<u16>for {n}\{{'
    def enum(item, n):
        return attempt(item, lambda: enum_table(read(MOD), n, f'mod.rs: enum {n}') or refuse(f'mod.rs: enum {n}', "no variants found"), [])
    def arms(item, n, tr, falls_to=None):
        def get():
            a, d = match_arms(read(MOD), I(n, tr), f'mod.rs: {tr}<u16> for {n}')
            if falls_to and not (d or '').startswith(falls_to):
                refuse(f'mod.rs: {tr}<u16> for {n}', f"default arm does not fall through to `{falls_to}`")
            return a, (ERR if d is None else d)
        return attempt(item, get, ([], None))
    cls_table, op_table, rc_table = enum('classTable', 'CLASS'), enum('opcodeTable', 'OPCODE'), enum('rcodeTable', 'RCODE')
    cls_arms, cls_def = arms('classArms', 'CLASS', 'TryFrom')
    q_arms, _ = arms('qtypeSpecials', 'QTYPE', 'TryFrom', 'match TYPE::from(')
    qc_arms, _ = arms('qclassSpecials', 'QCLASS', 'TryFrom', 'CLASS::try_from(')
    op_arms, op_def = arms('opcodeArms', 'OPCODE', 'From')
    rc_arms, rc_def = arms('rcodeArms', 'RCODE', 'From')
    sn = lambda xs: lean_list([f'("{a}", {b})' for a, b in xs], 4)
    ns = lambda xs: lean_list([f'({a}, "{b}")' for a, b in xs], 4)
    opt = lambda d: 'none' if d is None else f'some "{d}"'
    nat = lambda v, f: 'none' if v is None else f"some {v if f == 'd' else '0x%X' % v}"
    nats = lambda xs: '[' + ', '.join(str(x) for x in xs) + ']'

    L = ["/- generated by tools/translate.py — do not edit",
         "   (tables derived from the Rust sources of simple-dns / simple-mdns; see Props/Tie.lean) -/",
         "import SimpleDnsModel.Model.RData", "namespace Dns.Gen", "",
         "/-- items whose source text the translator did not understand (constants: `none`; whole tables: `[]`;",
         "`parse:T` / `write:T` / `compressed:T`: the row of T is absent from the schema tables below) -/",
         f"def untied : List String := {lean_list([chr(34) + n + chr(34) for n, _ in UNTIED], 4)}"]
    L += [f"-- UNTIED {n}: {r}" for n, r in UNTIED]
    L += ["/-- TYPE codes of the flat types whose `fn parse` was not understood -/",
          f"def untiedParse : List Nat := {nats(untied_codes['parse'])}",
          "/-- TYPE codes of the flat types whose `fn write_to` was not understood -/",
          f"def untiedWrite : List Nat := {nats(untied_codes['write'])}",
          "/-- TYPE codes of the flat types with a `fn write_compressed_to` that was not understood (or of which it is",
          "not known whether they have one) -/",
          f"def untiedCompressed : List Nat := {nats(untied_codes['comp'])}", "",
         "/-- variants of `rdata_enum!` (and NULL) with their `TYPE_CODE` -/",
         f"def typeCodes : List (String × Nat) := {sn(type_codes)}", "",
         "/-- wire reads of each flat type's `fn parse`, in the order of the bytes read -/",
         f"def parseSchema : List (Nat × List FKind) := {table('parse', kinds)}", "",
         "/-- wire writes of each flat type's `fn write_to`, in order -/",
         f"def writeSchema : List (Nat × List FKind) := {table('write', kinds)}", "",
         "/-- wire writes of `fn write_compressed_to`, for the types that override it -/",
         f"def compressedSchema : List (Nat × List FKind) := {table('comp', kinds)}", "",
         "/-- the up-front length guards `*position + N > data.len()` of each `fn parse`, in order (absent row: untied) -/",
         f"def parseGuards : List (Nat × List Nat) := {lean_list(guard_rows)}", "",
         "/-- the struct field each value read by `fn parse` is stored in -/",
         f"def parseFields : List (Nat × List String) := {table('parse', names)}", "",
         "/-- the struct field each value written by `fn write_to` comes from -/",
         f"def writeFields : List (Nat × List String) := {table('write', names)}", "",
         "/- numeric constants (`none`: untied) -/"]
    L += [f"def {n} : Option Nat := {nat(v, f)}" for n, v, f in consts]
    L += ["", "/-- the constants of `bitflags! PacketFlag` -/", f"def packetFlags : List (String × Nat) := {sn([(a, b) for a, b in flags])}",
          "def packetFlagsAll : Nat := packetFlags.foldl (fun acc e => acc ||| e.2) 0", "",
          f"/- default arms: `some \"{ERR}\"` is an error arm, `some \"V\"` the variant V, `none` untied (with its arms table) -/",
          f"def classTable : List (String × Nat) := {sn(cls_table)}",
          f"def classArms : List (Nat × String) := {ns(cls_arms)}", f"def classDefault : Option String := {opt(cls_def)}",
          f"def qtypeSpecials : List (Nat × String) := {ns(q_arms)}", f"def qclassSpecials : List (Nat × String) := {ns(qc_arms)}",
          f"def opcodeTable : List (String × Nat) := {sn(op_table)}",
          f"def opcodeArms : List (Nat × String) := {ns(op_arms)}", f"def opcodeDefault : Option String := {opt(op_def)}",
          f"def rcodeTable : List (String × Nat) := {sn(rc_table)}",
          f"def rcodeArms : List (Nat × String) := {ns(rc_arms)}", f"def rcodeDefault : Option String := {opt(rc_def)}",
          "", "end Dns.Gen", ""]
    return '\n'.join(L)

def main():
    here = os.path.dirname(os.path.abspath(__file__))
    ap = argparse.ArgumentParser(description=__doc__.split('\n')[0])
    ap.add_argument('--repo', default='/repo')
    ap.add_argument('--out', default=os.path.join(here, '..', 'lean/SimpleDnsModel/Generated/FromSource.lean'))
    args = ap.parse_args()
    t0 = time.time()
    out = os.path.normpath(args.out)
    try:
        text = generate(args.repo)
        old = open(out, encoding='utf-8').read() if os.path.exists(out) else None
        if old != text:
            os.makedirs(os.path.dirname(out), exist_ok=True)
            with open(out, 'w', encoding='utf-8') as f: f.write(text)
    except OSError as e:
        print(f"translate.py: {e}", file=sys.stderr); return 2
    for item, reason in UNTIED: print(f"translate.py: UNTIED {item}: {reason}")
    print(f"translate.py: {out} {'unchanged' if old == text else 'written'} ({time.time() - t0:.2f} s); "
          f"tied {len(TIED)} items, untied {len(UNTIED)}")
    return 0

if __name__ == '__main__':
    sys.exit(main())
