#!/bin/bash
# run_harmless_in.sh <private dir made by tools/mkwb.sh> <NN.diff>...: like run_harmless.sh, in a private copy
d=$1; shift
for f in "$@"; do
  n=$(basename $f .diff)
  git -C $d/repo checkout -q -- . ; git -C $d/repo clean -fdq
  git -C $d/repo apply $f || { echo "== $n does not apply"; continue; }
  echo "== $n"
  for p in C01 C02 C03 C04 C05 C06 C07 C08 C09 C10 C11 C12 C13 C14 C15 C16 C17 C18 C19 C20; do
    out=$(cd $d/verif && ./check $p quick 2>&1); rc=$?
    echo "$out" | grep -E "^VIOLATION|^NOTE" | cut -c1-260 | sed "s/^/   $p: /"
    [ $rc -ne 0 ] && echo "   $p: exit $rc"
  done
done
git -C $d/repo checkout -q -- . ; git -C $d/repo clean -fdq
echo HARMLESS-DONE
