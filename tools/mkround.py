#!/usr/bin/env python3
"""mkround.py <round number> <scratch dir>  -- prepare one round of independent seeded changes:
for every property a scratch git worktree of /repo (<scratch>/<Cxx>) and a prompt file (<scratch>/<Cxx>.prompt.txt)
built from tools/mutant_prompt.tmpl, the property's text, and the ideas of the earlier rounds (seeded/*/meta.json)
which the author is asked to avoid. Nothing under /verif is shown to the author except the prompt."""
import json, os, subprocess, sys, glob
rnd, scratch = sys.argv[1], sys.argv[2]
here = os.path.dirname(os.path.abspath(__file__))
tmpl = open(os.path.join(here, "mutant_prompt.tmpl")).read()
props = [json.loads(l) for l in open(os.path.join(here, "..", "properties.jsonl"))]
os.makedirs(scratch, exist_ok=True)
ORD = {"2": "SECOND", "3": "THIRD", "4": "FOURTH", "5": "FIFTH", "6": "SIXTH", "7": "SEVENTH", "8": "EIGHTH", "9": "NINTH", "10": "TENTH", "11": "ELEVENTH", "12": "TWELFTH"}
for p in props:
    pid = p["id"]
    d = os.path.join(scratch, pid)
    if not os.path.exists(d):
        subprocess.run(["git", "-C", "/repo", "worktree", "add", "--detach", d, "HEAD"], check=True, stdout=subprocess.DEVNULL, stderr=subprocess.DEVNULL)
    used = []
    for m in sorted(glob.glob(os.path.join(here, "..", "seeded", pid + "-*", "meta.json"))):
        c = json.load(open(m)).get("change")
        if c: used.append(c)
    text = f"{pid} — {p['title']}\n\nStatement: {p['statement']}\n\nQuantifier: {p['quantifier']['text']}\n"
    mdns = pid in ("C13", "C14", "C15", "C20")
    demo = ("; for simple-mdns internals the cfg-guarded wrappers of `simple_mdns::verif` may be used - then say so in the README and run the demo with RUSTFLAGS='--cfg simple_dns_verif' and --features sync,async-tokio" if mdns else "")
    out = (tmpl.replace("__DIR__", d).replace("__PROP__", text).replace("__USED__", "; ".join(used)).replace("__DEMO__", demo)
               .replace("__NOTE__", "").replace("__ROUND__", ORD.get(rnd, rnd + "th")))
    open(os.path.join(scratch, pid + ".prompt.txt"), "w").write(out)
print("prepared", len(props), "worktrees and prompts under", scratch)
