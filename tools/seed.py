#!/usr/bin/env python3
"""
seed.py confirm <src dir with patch.diff + demo.rs> <seed id> <property> <demo crate: simple-dns|simple-mdns>
    confirms the seeded change in a scratch worktree (suite passes with it, demo fails with it and
    passes without it) and stores it under /verif/seeded/<seed id>/
seed.py run <seed id> <Cxx> [<Cxx> ...]
    applies the stored patch to /repo's working tree, runs the quick checks, restores the tree,
    records the outcome in meta.json
"""
import json, os, re, shutil, subprocess, sys, time
SEEDED = "/verif/seeded"
SLOT = os.environ.get("SEED_SLOT", "")   # parallel confirmations use separate scratch worktrees and target directories
SCR = "/tmp/seedcheck" + SLOT
ENV = dict(os.environ, CARGO_NET_OFFLINE="true", CARGO_TARGET_DIR="/tmp/seedcheck-target" + SLOT)

def sh(cmd, cwd, timeout=3600, env=None):
    p = subprocess.run(cmd, cwd=cwd, shell=True, stdout=subprocess.PIPE, stderr=subprocess.STDOUT, text=True, timeout=timeout, env=env or ENV)
    return p.returncode, p.stdout

def passed(out):
    return sum(int(x) for x in re.findall(r"test result: \w+\. (\d+) passed", out)), sum(int(x) for x in re.findall(r"(\d+) failed", out))

def confirm(src, sid, prop, crate):
    if os.path.exists(SCR):
        sh(f"git -C /repo worktree remove --force {SCR}", "/")
    sh(f"git -C /repo worktree add --detach {SCR} HEAD", "/")
    meta = {"id": sid, "property": prop, "demo_crate": crate, "confirmed_at": time.strftime("%Y-%m-%dT%H:%M:%SZ", time.gmtime())}
    try:
        rc, out = sh(f"git apply {src}/patch.diff", SCR)
        assert rc == 0, "patch does not apply: " + out
        rc, out = sh("cargo test --workspace --no-fail-fast --offline 2>&1 | grep -E 'test result|FAILED|panicked' ", SCR)
        p, f = passed(out)
        meta["suite_with_change"] = {"passed": p, "failed": f}
        demo_dst = f"{SCR}/{crate}/tests/demo_seeded.rs"
        os.makedirs(os.path.dirname(demo_dst), exist_ok=True)
        shutil.copy(f"{src}/demo.rs", demo_dst)
        feat = "--features sync,async-tokio" if crate == "simple-mdns" else ""
        denv = dict(ENV, RUSTFLAGS="--cfg simple_dns_verif", CARGO_TARGET_DIR="/tmp/seedcheck-target-cfg" + SLOT) if crate == "simple-mdns" else ENV
        rc1, out1 = sh(f"cargo test -p {crate} {feat} --test demo_seeded --offline 2>&1 | tail -30", SCR, env=denv)
        p1, f1 = passed(out1)
        # a demo whose process is killed (stack overflow, abort) has no "N failed" line: it failed all the same
        if "process didn't exit successfully" in out1 and "signal" in out1: f1 = max(f1, 1)
        meta["demo_with_change"] = {"passed": p1, "failed": f1, "tail": out1[-600:]}
        sh(f"git apply -R {src}/patch.diff", SCR)
        rc2, out2 = sh(f"cargo test -p {crate} {feat} --test demo_seeded --offline 2>&1 | tail -30", SCR, env=denv)
        p2, f2 = passed(out2)
        meta["demo_without_change"] = {"passed": p2, "failed": f2}
        ok = p >= 130 and f == 0 and f1 > 0 and f2 == 0 and p2 > 0
        meta["confirmed"] = ok
        print(json.dumps(meta, indent=1)[:1500])
        if ok:
            d = f"{SEEDED}/{sid}"
            os.makedirs(d, exist_ok=True)
            shutil.copy(f"{src}/patch.diff", d)
            shutil.copy(f"{src}/demo.rs", d)
            if os.path.exists(f"{src}/README.md"):
                shutil.copy(f"{src}/README.md", f"{d}/AUTHOR_NOTES.md")
            json.dump(meta, open(f"{d}/meta.json", "w"), indent=1)
        return ok
    finally:
        sh(f"git -C /repo worktree remove --force {SCR}", "/")

def run(sid, props):
    d = f"{SEEDED}/{sid}"
    meta = json.load(open(f"{d}/meta.json"))
    rc, out = sh("git status --porcelain", "/repo")
    assert out.strip() == "", "/repo working tree is not clean: " + out
    rc, out = sh(f"git apply {d}/patch.diff", "/repo")
    assert rc == 0, out
    res = meta.setdefault("checks", {})
    # evidence files describe the unchanged tree: keep them out of a run on a changed one
    shutil.rmtree("/tmp/evidence-keep", ignore_errors=True)
    shutil.copytree("/verif/evidence", "/tmp/evidence-keep")
    try:
        for p in props:
            t0 = time.time()
            rc, out = sh(f"./check {p} quick", "/verif", env=dict(os.environ))
            viol = [l for l in out.splitlines() if l.startswith("VIOLATION")]
            res[p] = {"exit": rc, "violation_lines": viol, "summary": [l for l in out.splitlines() if l.startswith(p)][:1], "wall_s": round(time.time() - t0, 1)}
            print(p, "exit", rc, viol[:2])
    finally:
        sh("git checkout -- .", "/repo")
        rc, out = sh("git status --porcelain", "/repo")
        assert out.strip() == "", out
        shutil.rmtree("/verif/evidence")
        shutil.copytree("/tmp/evidence-keep", "/verif/evidence")
        shutil.rmtree("/tmp/evidence-keep", ignore_errors=True)
        # the generated tables must describe the restored tree again
        sh("python3 /verif/tools/translate.py; python3 /verif/tools/translate_env.py", "/verif")
    json.dump(meta, open(f"{d}/meta.json", "w"), indent=1)

if __name__ == "__main__":
    if sys.argv[1] == "confirm":
        sys.exit(0 if confirm(*sys.argv[2:6]) else 1)
    elif sys.argv[1] == "run":
        run(sys.argv[2], sys.argv[3:])
