#!/bin/bash
# confirm_some.sh <round> <scratch dir> <Cxx>...: confirm the delivered changes of the given properties, four at a time
rnd=$1; scr=$2; shift 2
cd /verif
one() { slot=$1; p=$2; crate=simple-dns; case $p in C13|C14|C15|C20) crate=simple-mdns;; esac
  for m in a b; do [ -f $scr/$p/deliver/$m/patch.diff ] || { echo "== $p-$m$rnd missing"; continue; }
    r=$(SEED_SLOT=$slot python3 tools/seed.py confirm $scr/$p/deliver/$m $p-$m$rnd $p $crate 2>&1 | grep -E '"confirmed"|AssertionError' | head -1); echo "== $p-$m$rnd $r"; done; }
i=0
for p in "$@"; do i=$((i+1)); one $(( (i-1) % 4 + 1 )) $p & if [ $((i % 4)) -eq 0 ]; then wait; fi; done
wait; echo CONFIRM-DONE
