#!/bin/bash
# run_round.sh <round>: run every stored change of a round against its property's quick check
rnd=$1
cd /verif
for p in C01 C02 C03 C04 C05 C06 C07 C08 C09 C10 C11 C12 C13 C14 C15 C16 C17 C18 C19 C20; do
  for m in a b; do
    id=$p-$m$rnd
    [ -f seeded/$id/meta.json ] || continue
    echo "== $id"
    python3 tools/seed.py run $id $p 2>&1 | grep -E "^C[0-9]+ exit|Error|assert" | cut -c1-300
  done
done
echo RUN-ROUND-DONE
