#!/bin/bash
# regress.sh <private dir made by tools/mkwb.sh> <seed id>...: re-run stored seeded changes against the CURRENT checks
# in a private copy (neither /repo nor /verif is touched); prints one line per seed: id, exit status, violation keys
d=$1; shift
for id in "$@"; do
  p=${id%%-*}
  git -C $d/repo checkout -q -- . ; git -C $d/repo clean -fdq
  if ! git -C $d/repo apply /verif/seeded/$id/patch.diff 2>/dev/null; then echo "$id APPLY-FAILED"; continue; fi
  out=$(cd $d/verif && ./check $p quick 2>&1)
  n=$(echo "$out" | grep -c "^VIOLATION")
  keys=$(echo "$out" | grep "^VIOLATION" | sed 's/.*replay=[^ ]*replays\///; s/\.json//' | sed -E "s/^$p-quick-[0-9]+-//; s/-[0-9a-f]{10}( no-failing-input-found)?$/\1/" | sort -u | tr '\n' ' ')
  echo "$id violations=$n $keys"
  rm -rf $d/verif/replays
done
git -C $d/repo checkout -q -- . ; git -C $d/repo clean -fdq
echo REGRESS-DONE
