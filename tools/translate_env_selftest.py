#!/usr/bin/env python3
"""translate_env_selftest.py -- does tools/translate_env.py + Props/TieEnv.lean notice changes of the envelope code?

    python3 tools/translate_env_selftest.py [--repo /repo]

Copies the sources to a temporary directory (the repository is never touched), applies one textual
mutation at a time, runs the translator on the copy and compiles a scratch copy of Props/TieEnv.lean
against the generated file.  Expected outcomes:
    fail:<thm>     the translator reads the changed source (nothing untied) and theorem <thm> no longer checks
    untied:<item>  the translator does not recognise the changed function: exactly that item is untied, and
                   TieEnv.lean still checks (the item is then tied by the correspondence check only)
    same           formatting / commuting statements: the generated file is byte-identical
"""
import argparse, concurrent.futures, os, re, shutil, subprocess, sys, tempfile

HERE = os.path.dirname(os.path.abspath(__file__))
LEAN_DIR = os.path.normpath(os.path.join(HERE, '..', 'lean'))
TIE = os.path.join(LEAN_DIR, 'SimpleDnsModel/Props/TieEnv.lean')
D = 'simple-dns/src/dns/'
M = [
 ("peek questions reads 5..7", D + 'header_buffer.rs', '.get(4..6)', '.get(5..7)', 'fail:peek_questions'),
 ("peek answers reads the name-server count", D + 'header_buffer.rs', '.get(6..8)', '.get(8..10)', 'fail:peek_answers'),
 ("peek rcode without mask", D + 'header_buffer.rs', '.map(|flags| (flags & masks::RESPONSE_CODE_MASK).into())', '.map(|flags| flags.into())', 'untied:peek:rcode'),
 ("peek has_flags via intersects", D + 'header_buffer.rs', '.contains(flags))', '.intersects(flags))', 'untied:peek:has_flags'),
 ("header min length 10", D + 'header.rs', 'if data.len() < 12 {', 'if data.len() < 10 {', 'fail:header_parse'),
 ("header id read from 1..3", D + 'header.rs', 'u16::from_be_bytes(data[..2].try_into()?)', 'u16::from_be_bytes(data[1..3].try_into()?)', 'fail:header_parse'),
 ("header flags read from 3..5", D + 'header.rs', 'data[2..4].try_into()?', 'data[3..5].try_into()?', 'fail:header_parse'),
 ("header write: answers and name servers exchanged", D + 'header.rs',
  "buffer.write_all(&answers.to_be_bytes())?;\n        buffer.write_all(&name_servers.to_be_bytes())?;",
  "buffer.write_all(&name_servers.to_be_bytes())?;\n        buffer.write_all(&answers.to_be_bytes())?;", 'fail:header_write'),
 ("header write_to parameters exchanged (call site unchanged)", D + 'header.rs',
  "answers: u16,\n        name_servers: u16,", "name_servers: u16,\n        answers: u16,", 'fail:header_counts_line_up'),
 ("get_flags through a helper", D + 'header.rs', 'flags |= self.response_code as u16 & masks::RESPONSE_CODE_MASK;',
  'flags |= (self.response_code as u16) % 16;', 'untied:header.get_flags'),
 ("remove_flags toggles", D + 'header.rs', 'self.z_flags.remove(flags);', 'self.z_flags.toggle(flags);', 'untied:header.flag_ops'),
 ("question guard 3", D + 'question.rs', 'if *position + 4 > data.len() {', 'if *position + 3 > data.len() {', 'fail:question_parse'),
 ("question class mask 0x3FFF", D + 'question.rs', 'qclass & 0x7FFF', 'qclass & 0x3FFF', 'fail:question_parse'),
 ("question advance 5", D + 'question.rs', '*position += 4;', '*position += 5;', 'fail:question_parse'),
 ("question type and class ranges exchanged", D + 'question.rs',
  'let qtype = u16::from_be_bytes(data[*position..*position + 2].try_into()?);\n        let qclass = u16::from_be_bytes(data[*position + 2..*position + 4].try_into()?);',
  'let qclass = u16::from_be_bytes(data[*position..*position + 2].try_into()?);\n        let qtype = u16::from_be_bytes(data[*position + 2..*position + 4].try_into()?);', 'fail:question_parse'),
 ("question reads in the other textual order (same ranges)", D + 'question.rs',
  'let qtype = u16::from_be_bytes(data[*position..*position + 2].try_into()?);\n        let qclass = u16::from_be_bytes(data[*position + 2..*position + 4].try_into()?);',
  'let qclass = u16::from_be_bytes(data[*position + 2..*position + 4].try_into()?);\n        let qtype = u16::from_be_bytes(data[*position..*position + 2].try_into()?);', 'same'),
 ("question unicast bit written as 0x4000", D + 'question.rs', 'Into::<u16>::into(self.qclass) | 0x8000', 'Into::<u16>::into(self.qclass) | 0x4000', 'fail:question_write'),
 ("question writes class before type", D + 'question.rs',
  "out.write_all(&Into::<u16>::into(self.qtype).to_be_bytes())?;\n        out.write_all(&qclass.to_be_bytes())\n            .map_err(crate::SimpleDnsError::from)",
  "out.write_all(&qclass.to_be_bytes())?;\n        out.write_all(&Into::<u16>::into(self.qtype).to_be_bytes())\n            .map_err(crate::SimpleDnsError::from)", 'fail:question_write'),
 ("rr guard 10", D + 'resource_record.rs', 'if *position + 8 > data.len() {', 'if *position + 10 > data.len() {', 'fail:rr_parse'),
 ("rr ttl read from 5..9", D + 'resource_record.rs', 'data[*position + 4..*position + 8]', 'data[*position + 5..*position + 9]', 'fail:rr_parse'),
 ("rr class read after RData::parse", D + 'resource_record.rs',
  "let class_value = u16::from_be_bytes(data[*position + 2..*position + 4].try_into()?);\n        let ttl = u32::from_be_bytes(data[*position + 4..*position + 8].try_into()?);\n        let rdata = RData::parse(data, position)?;",
  "let ttl = u32::from_be_bytes(data[*position + 4..*position + 8].try_into()?);\n        let rdata = RData::parse(data, position)?;\n        let class_value = u16::from_be_bytes(data[*position + 2..*position + 4].try_into()?);", 'untied:rr.parse'),
 ("rr len constant 11", D + 'resource_record.rs', 'self.name.len() + self.rdata.len() + 10', 'self.name.len() + self.rdata.len() + 11', 'fail:rr_fixed_len'),
 ("rr write_to: rdlen after rdata", D + 'resource_record.rs',
  "out.write_all(&(self.rdata.len() as u16).to_be_bytes())?;\n        self.rdata.write_to(out)\n    }",
  "self.rdata.write_to(out)?;\n        out.write_all(&(self.rdata.len() as u16).to_be_bytes())?;\n        Ok(())\n    }", 'untied:rr.write'),
 ("rr write_compressed_to: seek to the end of the stream", D + 'resource_record.rs', "out.seek(std::io::SeekFrom::Start(end))?;", "out.seek(std::io::SeekFrom::End(0))?;", 'fail:rr_write_compressed_steps'),
 ("rr write_compressed_to: RDLENGTH from len()", D + 'resource_record.rs', "out.write_all(&((end - len_position - 2) as u16).to_be_bytes())?;", "out.write_all(&(self.rdata.len() as u16).to_be_bytes())?;", 'fail:rr_write_compressed_steps'),
 ("match_qtype: MAILB over MB MG MINFO", D + 'resource_record.rs', 'type_code == TYPE::MR || type_code == TYPE::MB', 'type_code == TYPE::MINFO || type_code == TYPE::MB', 'fail:match_qtype'),
 ("match_qtype: IXFR true", D + 'resource_record.rs', 'QTYPE::IXFR => false', 'QTYPE::IXFR => true', 'fail:match_qtype'),
 ("match_qtype: MAILA over MD MF", D + 'resource_record.rs', 'QTYPE::MAILA => type_code == TYPE::MX', 'QTYPE::MAILA => type_code == TYPE::MD || type_code == TYPE::MF', 'fail:match_qtype'),
 ("match_qtype: arms reordered", D + 'resource_record.rs', "QTYPE::ANY => true,\n            QTYPE::IXFR => false,", "QTYPE::IXFR => false,\n            QTYPE::ANY => true,", 'same'),
 ("rdata guard 9", D + 'rdata/macros.rs', 'if *position + 10 > data.len() {', 'if *position + 9 > data.len() {', 'fail:rdata_parse'),
 ("rdata rdlen read from 7..9", D + 'rdata/macros.rs', 'data[*position + 8..*position + 10]', 'data[*position + 7..*position + 9]', 'fail:rdata_parse'),
 ("rdata advance 11", D + 'rdata/macros.rs', '*position += 10;\n', '*position += 11;\n', 'fail:rdata_parse'),
 ("rdata OPT slice one byte short", D + 'rdata/macros.rs', '&data[..*position + rdatalen + 10]', '&data[..*position + rdatalen + 9]', 'fail:rdata_parse'),
 ("rdata: cursor no longer set to the end of the record", D + 'rdata/macros.rs', '*position = rdata_end;\n', '', 'untied:rdata.parse'),
 ("packet first offset 11", D + 'packet.rs', 'let mut offset = 12;', 'let mut offset = 11;', 'fail:packet_parse'),
 ("packet answers counted by name_servers", D + 'packet.rs', 'header_buffer::answers(data)?', 'header_buffer::name_servers(data)?', 'fail:packet_sections'),
 ("packet write_to: OPT after additional", D + 'packet.rs',
  "        if let Some(rr) = self.header.opt_rr() {\n            rr.write_to(out)?;\n        }\n\n        for e in &self.additional_records {\n            e.write_to(out)?;\n        }\n",
  "        for e in &self.additional_records {\n            e.write_to(out)?;\n        }\n\n        if let Some(rr) = self.header.opt_rr() {\n            rr.write_to(out)?;\n        }\n", 'fail:packet_write_order'),
 ("packet write_to: the final flush removed", D + 'packet.rs', "        out.flush()?;\n        Ok(())\n", "        Ok(())\n", 'fail:packet_write_order'),
 ("packet write_compressed_to: the final flush removed", D + 'packet.rs', "        out.flush()?;\n\n        Ok(())\n", "        Ok(())\n", 'fail:packet_write_order'),
 ("packet write_header: answers and name servers exchanged", D + 'packet.rs',
  "self.answers.len() as u16,\n            self.name_servers.len() as u16,", "self.name_servers.len() as u16,\n            self.answers.len() as u16,", 'fail:header_counts_line_up'),
 ("mdns refresh at ttl / 10 * 9", 'simple-mdns/src/resource_record_manager.rs', 'ttl / 10 * 8', 'ttl / 10 * 9', 'fail:refresh_offset'),
 ("mdns short ttl below 120", 'simple-mdns/src/resource_record_manager.rs', 'ttl if ttl < 60', 'ttl if ttl < 120', 'fail:refresh_offset'),
 ("sync responder returns the send error", 'simple-mdns/src/sync_discovery/simple_responder.rs',
  "if let Err(err) = sender_socket.send_to(&reply, reply_addr) {\n                                log::error!(\"Failed to send reply {err}\");\n                            }",
  "sender_socket.send_to(&reply, reply_addr)?;", 'fail:responder_send_policy'),
 ("tokio responder ignores the send result", 'simple-mdns/src/async_discovery/simple_responder.rs',
  "if let Err(err) = sender_socket.send_to(&reply, reply_addr).await {\n                                log::error!(\"Failed to send reply {err}\");\n                            }",
  "let _ = sender_socket.send_to(&reply, reply_addr).await;", 'untied:mdns.responder_send:tokio'),
 ("ResourceRecord::into_owned drops the cache-flush bit", D + 'resource_record.rs', "cache_flush: self.cache_flush,\n        }\n    }\n\n    fn write_common", "cache_flush: false,\n        }\n    }\n\n    fn write_common", 'fail:into_owned_fieldwise'),
 ("MINFO::into_owned exchanges the mailboxes", D + 'rdata/minfo.rs', "rmailbox: self.rmailbox.into_owned(),\n            emailbox: self.emailbox.into_owned(),", "rmailbox: self.emailbox.into_owned(),\n            emailbox: self.rmailbox.into_owned(),", 'fail:into_owned_fieldwise'),
 ("SOA::into_owned takes minimum from expire", D + 'rdata/soa.rs', "minimum: self.minimum,", "minimum: self.expire as u32,", 'fail:into_owned_fieldwise'),
 ("MX::into_owned via struct update syntax", D + 'rdata/mx.rs', "MX {\n            preference: self.preference,\n            exchange: self.exchange.into_owned(),\n        }", "MX { exchange: self.exchange.clone().into_owned(), ..self }", 'untied:own:MX'),
 ("is_link_local compares with localhost", D + 'name.rs', 'b"local".eq_ignore_ascii_case(&label.data)', 'b"localhost".eq_ignore_ascii_case(&label.data)', 'fail:name_relations_source'),
 ("is_link_local looks at a suffix", D + 'name.rs', 'b"local".eq_ignore_ascii_case(&label.data)', 'label.data.to_ascii_lowercase().ends_with(b"local")', 'untied:name.relations'),
 ("is_subdomain_of accepts equal lengths", D + 'name.rs', 'self.labels.len() > other.labels.len()', 'self.labels.len() >= other.labels.len()', 'fail:name_relations_source'),
 ("is_subdomain_of compares text", D + 'name.rs', "            && other\n                .iter()\n                .rev()\n                .zip(self.iter().rev())\n                .all(|(o, s)| *o == *s)", "            && self.to_string().ends_with(&other.to_string())", 'untied:name.relations'),
 ("extract_rcode_from_ttl shifts by 8", D + 'rdata/opt.rs', '(ttl & masks::RCODE_MASK) << 4', '(ttl & masks::RCODE_MASK) << 8', 'fail:opt_ttl_source'),
 ("extract_rcode_from_ttl shifts in u8", D + 'rdata/opt.rs', 'let mut rcode = (ttl & masks::RCODE_MASK) << 4;', 'let mut rcode = (((ttl & masks::RCODE_MASK) as u8) << 4) as u32;', 'untied:opt.ttl'),
 ("encode_ttl uses the version mask twice", D + 'rdata/opt.rs', '(header.response_code as u32 & masks::RCODE_MASK) >> 4', '(header.response_code as u32 & masks::VERSION_MASK) >> 4', 'fail:opt_ttl_source'),
 ("escape also escapes spaces", 'simple-mdns/src/instance_information.rs', "            '\\\\' => escaped_name.push_str(\"\\\\\\\\\"),", "            '\\\\' => escaped_name.push_str(\"\\\\\\\\\"),\n            ' ' => escaped_name.push_str(\"\\\\ \"),", 'fail:escape_source'),
 ("unescape written with byte slices", 'simple-mdns/src/instance_information.rs', "                if let Some(c) = maybe_scaped.next() {\n                    unescaped_name.push(c)\n                }", "                unescaped_name.extend(maybe_scaped.next());", 'untied:mdns.escape'),
 ("tokio discovery loop returns the error", 'simple-mdns/src/async_discovery/service_discovery.rs',
  "if let Err(err) = self.process_packet(&recv_buffer[..count], addr, &mut on_discovery).await {\n                        log::error!(\"Failed to process received packet {err}\");\n                    }",
  "self.process_packet(&recv_buffer[..count], addr, &mut on_discovery).await?;", 'fail:discovery_send_policy'),
 ("tokio discovery loop breaks on some errors", 'simple-mdns/src/async_discovery/service_discovery.rs',
  "if let Err(err) = self.process_packet(&recv_buffer[..count], addr, &mut on_discovery).await {\n                        log::error!(\"Failed to process received packet {err}\");\n                    }",
  "match self.process_packet(&recv_buffer[..count], addr, &mut on_discovery).await { Ok(()) => {} Err(err) => break Err(err), }", 'untied:mdns.discovery_send:tokio'),
 ("sync send_packet returns nothing but panics", 'simple-mdns/src/sync_discovery/service_discovery.rs', "    if let Err(err) = socket.send_to(packet_bytes, address) {\n        log::error!(\"There was an error sending the  packet: {err}\");\n    }", "    socket.send_to(packet_bytes, address).unwrap();", 'untied:mdns.discovery_send:sync'),
 ("RData::into_owned rebuilds NULL with the constant type code", D + 'rdata/macros.rs', "RData::NULL(rdatatype, data) => RData::NULL(rdatatype, data.into_owned()),", "RData::NULL(_, data) => RData::NULL(NULL::TYPE_CODE, data.into_owned()),", 'untied:rdata.enum_arms'),
 ("RData::type_code reports NULL for every opaque record", D + 'rdata/macros.rs', "RData::NULL(type_code, _) => TYPE::from(*type_code),", "RData::NULL(_, _) => TYPE::NULL,", 'untied:rdata.enum_arms'),
 ("MessageWriter::flush does nothing", D + 'packet.rs', "        self.inner.flush()\n", "        Ok(())\n", 'untied:packet.message_writer'),
 ("MessageWriter::seek forgets the start", D + 'packet.rs', "std::io::SeekFrom::Start(self.start + offset)", "std::io::SeekFrom::Start(offset)", 'untied:packet.message_writer'),
 ("MAILA written with the code of MX", D + 'mod.rs', "            QTYPE::MAILA => 254,", "            QTYPE::MAILA => TYPE::MX.into(),", 'untied:codes.question_codes_out'),
 ("MAILB and MAILA codes swapped on the way out", D + 'mod.rs', "            QTYPE::MAILB => 253,\n            QTYPE::MAILA => 254,", "            QTYPE::MAILB => 254,\n            QTYPE::MAILA => 253,", 'fail:question_codes_out'),
 ("QCLASS::ANY written as 254", D + 'mod.rs', "            QCLASS::ANY => 255,", "            QCLASS::ANY => 254,", 'fail:question_codes_out'),
 ("cache-flush records live two seconds", 'simple-mdns/src/resource_record_manager.rs', "        let ttl = if resource.cache_flush {\n            1\n", "        let ttl = if resource.cache_flush {\n            2\n", 'fail:store_add_source'),
 ("cached copy replaces the authoritative record", 'simple-mdns/src/resource_record_manager.rs', "                if !matches!(\n                    resources.get(&resource),\n                    Some(ResourceRecordType::Authoritative)\n                ) {\n                    resources.insert(resource, ResourceRecordType::Cached(exp_info));\n                }", "                resources.insert(resource, ResourceRecordType::Cached(exp_info));", 'fail:store_add_source'),
 ("a cached record still counts at its expiry instant", 'simple-mdns/src/resource_record_manager.rs', "self.cached && exp_info.expire_at > Instant::now()", "self.cached && exp_info.expire_at >= Instant::now()", 'fail:store_filter_source'),
 ("match_filter looks at the refresh instant", 'simple-mdns/src/resource_record_manager.rs', "self.cached && exp_info.expire_at > Instant::now()", "self.cached && exp_info.refresh_at > Instant::now()", 'fail:store_filter_source'),
 ("DomainResourceFilter::cached() without subdomains", 'simple-mdns/src/resource_record_manager.rs', "            authoritative: false,\n            subdomain: true,\n            cached: true,", "            authoritative: false,\n            subdomain: false,\n            cached: true,", 'fail:store_filter_source'),
 ("should_refresh compares the expiry", 'simple-mdns/src/resource_record_manager.rs', "ResourceRecordType::Cached(exp_info) => exp_info.refresh_at < Instant::now(),", "ResourceRecordType::Cached(exp_info) => exp_info.expire_at < Instant::now(),", 'fail:store_filter_source'),
 ("get_domain_resources keeps empty groups", 'simple-mdns/src/resource_record_manager.rs', "            .filter(|resources| !resources.is_empty())\n", "", 'untied:mdns.store_lookup'),
 ("get_key from the leaf up", 'simple-mdns/src/resource_record_manager.rs', "        .iter()\n        .rev()\n        .flat_map(|label| {", "        .iter()\n        .flat_map(|label| {", 'untied:mdns.store_add'),
 ("build_reply answers only the exact name", 'simple-mdns/src/lib.rs', "DomainResourceFilter::authoritative(true))", "DomainResourceFilter::authoritative(false))", 'fail:build_reply_source'),
 ("build_reply adds A records twice and no AAAA", 'simple-mdns/src/lib.rs', "r.match_qtype(TYPE::AAAA.into())", "r.match_qtype(TYPE::A.into())", 'fail:build_reply_source'),
 ("build_reply adds addresses of any class", 'simple-mdns/src/lib.rs', "                                && r.match_qclass(question.qclass)\n", "", 'untied:mdns.build_reply'),
 ("build_reply answers an empty reply", 'simple-mdns/src/lib.rs', "    if !reply_packet.answers.is_empty() {\n        Some((reply_packet, unicast_response))\n    } else {\n        None\n    }", "    Some((reply_packet, unicast_response))", 'untied:mdns.build_reply'),
 ("sync discovery reads the authority section instead of the additional one", 'simple-mdns/src/sync_discovery/service_discovery.rs', "        .chain(packet.additional_records)\n        .filter(|aw| aw.name.ne(full_name)", "        .chain(packet.name_servers)\n        .filter(|aw| aw.name.ne(full_name)", 'fail:ingest_source'),
 ("tokio discovery keeps its own instance", 'simple-mdns/src/async_discovery/service_discovery.rs', "        .filter(|aw| aw.name.ne(full_name) && aw.name.is_subdomain_of(service_name))", "        .filter(|aw| aw.name.is_subdomain_of(service_name))", 'fail:ingest_source'),
 ("sync discovery keeps names outside the service", 'simple-mdns/src/sync_discovery/service_discovery.rs', "        .filter(|aw| aw.name.ne(full_name) && aw.name.is_subdomain_of(service_name))", "        .filter(|aw| aw.name.ne(full_name))", 'fail:ingest_source'),
 ("tokio discovery reads three sections", 'simple-mdns/src/async_discovery/service_discovery.rs', "        .chain(packet.additional_records)\n        .filter(|aw| aw.name.ne(full_name)", "        .chain(packet.name_servers)\n        .chain(packet.additional_records)\n        .filter(|aw| aw.name.ne(full_name)", 'untied:mdns.ingest:tokio'),
 ("from_records keeps attributes with an empty key", 'simple-mdns/src/instance_information.rs', "                simple_dns::rdata::RData::TXT(txt) => attributes.extend(\n                    // an empty TXT record is sent as a single empty string, which is not an attribute\n                    txt.attributes().into_iter().filter(|(key, _)| !key.is_empty()),\n                ),", "                simple_dns::rdata::RData::TXT(txt) => attributes.extend(txt.attributes()),", 'fail:from_records_source'),
 ("from_records ignores AAAA records", 'simple-mdns/src/instance_information.rs', "                simple_dns::rdata::RData::AAAA(aaaa) => {\n                    ip_addresses.insert(std::net::Ipv6Addr::from(aaaa.address).into());\n                }\n", "", 'fail:from_records_source'),
 ("from_records takes the priority for the port", 'simple-mdns/src/instance_information.rs', "                    ports.insert(srv.port);", "                    ports.insert(srv.priority);", 'untied:mdns.from_records'),
 ("SRV records advertised with weight 1", 'simple-mdns/src/conversion_utils.rs', "            weight: 0,", "            weight: 1,", 'fail:into_records_source'),
 ("AAAA records advertised in class CH", 'simple-mdns/src/conversion_utils.rs', "ResourceRecord::new(name.clone(), CLASS::IN, rr_ttl, RData::AAAA(AAAA::from(ip)))", "ResourceRecord::new(name.clone(), CLASS::CH, rr_ttl, RData::AAAA(AAAA::from(ip)))", 'fail:into_records_source'),
 ("TXT record first", 'simple-mdns/src/instance_information.rs', "        records.push(hashmap_to_txt(service_name, self.attributes, ttl)?);\n\n        Ok(records)", "        records.insert(0, hashmap_to_txt(service_name, self.attributes, ttl)?);\n\n        Ok(records)", 'untied:mdns.into_records'),
 ("ports before addresses", 'simple-mdns/src/instance_information.rs', "        for ip_address in self.ip_addresses {\n            records.push(ip_addr_to_resource_record(service_name, ip_address, ttl));\n        }\n\n        for port in self.ports {\n            records.push(port_to_srv_record(service_name, port, ttl));\n        }\n", "        for port in self.ports {\n            records.push(port_to_srv_record(service_name, port, ttl));\n        }\n\n        for ip_address in self.ip_addresses {\n            records.push(ip_addr_to_resource_record(service_name, ip_address, ttl));\n        }\n", 'checks'),
 ("SRV target is the root", 'simple-mdns/src/conversion_utils.rs', "            target: name.clone(),", "            target: Name::new_unchecked(\"\"),", 'untied:mdns.into_records'),
 ("Name::parse counts the root octet from the start", D + 'name.rs', "        let mut name_size = 0usize;", "        let mut name_size = 1usize;", 'fail:name_parse_source'),
 ("Name::parse accepts 256 octets", D + 'name.rs', "            if name_size >= MAX_NAME_LENGTH {", "            if name_size > MAX_NAME_LENGTH {", 'fail:name_parse_source'),
 ("Name::parse pointer bound off by one", D + 'name.rs', "                    if pointer_position + 2 > data.len() {", "                    if pointer_position + 1 > data.len() {", 'fail:name_parse_source'),
 ("Name::parse allows a pointer to itself", D + 'name.rs', "                    if pointer >= pointer_position {", "                    if pointer > pointer_position {", 'fail:name_parse_source'),
 ("Name::parse label of 64 octets", D + 'name.rs', "                    if len as usize > MAX_LABEL_LENGTH {", "                    if len as usize >= MAX_LABEL_LENGTH + 2 {", 'untied:name.parse'),
 ("Name::parse treats every octet above 63 as a pointer", D + 'name.rs', "                len if len & POINTER_MASK == POINTER_MASK => {", "                len if len as usize > MAX_LABEL_LENGTH => {", 'untied:name.parse'),
 ("compress_append leaves out offset 16383", D + 'name.rs', "                    if position <= MAX_POINTER_OFFSET {", "                    if position < MAX_POINTER_OFFSET {", 'fail:name_write_source'),
 ("compress_append enters every position", D + 'name.rs', "                    if position <= MAX_POINTER_OFFSET {\n                        e.insert(position);\n                    }", "                    e.insert(position);", 'untied:name.write'),
 ("compress_append bounds by the name length", D + 'name.rs', "                    if position <= MAX_POINTER_OFFSET {", "                    if position <= MAX_NAME_LENGTH {", 'fail:name_write_source'),
 ("plain_append ends a name with its label count", D + 'name.rs', "            out.write_all(&label.data)?;\n        }\n\n        out.write_all(&[0])?;\n        Ok(())\n    }\n\n    fn compress_append", "            out.write_all(&label.data)?;\n        }\n\n        out.write_all(&[self.labels.len() as u8 & 0])?;\n        Ok(())\n    }\n\n    fn compress_append", 'untied:name.write'),
 ("names shown with a trailing-dot style separator", D + 'name.rs', "                f.write_str(\".\")?;", "                f.write_str(\". \")?;", 'fail:name_display_source'),
 ("labels shown with their dots quoted", D + 'name.rs', "        f.write_str(&String::from_utf8_lossy(&self.data))", "        f.write_str(&String::from_utf8_lossy(&self.data).replace('.', \"\\\\.\"))", 'untied:name.display'),
 ("TXT attributes: the last occurrence of a key wins", D + 'rdata/txt.rs', "            attributes.entry(key).or_insert(value);", "            attributes.insert(key, value);", 'fail:txt_api_source'),
 ("TXT attributes split at a colon", D + 'rdata/txt.rs', "char_str.data.splitn(2, |c| *c == b'=')", "char_str.data.splitn(2, |c| *c == b':')", 'fail:txt_api_source'),
 ("TXT from a map joins with a colon", D + 'rdata/txt.rs', 'format!("{}={}", &key, &value)', 'format!("{}:{}", &key, &value)', 'fail:txt_api_source'),
 ("TXT from text in chunks of 255", D + 'rdata/txt.rs', "chunks(MAX_CHARACTER_STRING_LENGTH - 1)", "chunks(MAX_CHARACTER_STRING_LENGTH)", 'fail:txt_api_source'),
 ("TXT from a map swallows an overlong entry", D + 'rdata/txt.rs', "                None => txt.add_char_string(key.try_into()?),", "                None => { if let Ok(k) = key.try_into() { txt.add_char_string(k) } }", 'untied:txt.api'),
 ("TXT long_attributes keeps parts with an empty key", D + 'rdata/txt.rs', "            if !key.is_empty() {\n                attributes.entry(key.to_owned()).or_insert(value);\n            }", "            attributes.entry(key.to_owned()).or_insert(value);", 'untied:txt.api'),
 ("sync responder reads queries into 1472 bytes", 'simple-mdns/src/sync_discovery/simple_responder.rs', "        let mut recv_buffer = [0u8; 9000];", "        let mut recv_buffer = [0u8; 1472];", 'fail:service_shape_source'),
 ("sync discovery reads into 4096 bytes", 'simple-mdns/src/sync_discovery/service_discovery.rs', "            let mut recv_buffer = [0u8; 9000];", "            let mut recv_buffer = [0u8; 4096];", 'fail:service_shape_source'),
 ("tokio responder: an unserialisable reply ends the loop", 'simple-mdns/src/async_discovery/simple_responder.rs', "                            let reply = match reply_packet.build_bytes_vec_compressed() {\n                                Ok(reply) => reply,\n                                Err(err) => {\n                                    log::error!(\"Failed to build reply {err}\");\n                                    continue;\n                                }\n                            };", "                            let reply = reply_packet.build_bytes_vec_compressed()?;", 'fail:service_shape_source'),
 ("sync responder buffer size from a constant", 'simple-mdns/src/sync_discovery/simple_responder.rs', "        let mut recv_buffer = [0u8; 9000];", "        const MAX: usize = 9000;\n        let mut recv_buffer = [0u8; MAX];", 'untied:mdns.service_shape'),
 ("HARMLESS: the arms of From<QTYPE> for u16 in another order", D + 'mod.rs', "            QTYPE::TYPE(ty) => ty.into(),\n            QTYPE::IXFR => 251,\n            QTYPE::AXFR => 252,", "            QTYPE::AXFR => 252,\n            QTYPE::IXFR => 251,\n            QTYPE::TYPE(ty) => ty.into(),", 'checks'),
 ("HARMLESS: the arms of from_records in another order", 'simple-mdns/src/instance_information.rs', "                simple_dns::rdata::RData::A(a) => {\n                    ip_addresses.insert(std::net::Ipv4Addr::from(a.address).into());\n                }\n                simple_dns::rdata::RData::AAAA(aaaa) => {\n                    ip_addresses.insert(std::net::Ipv6Addr::from(aaaa.address).into());\n                }\n", "                simple_dns::rdata::RData::AAAA(aaaa) => {\n                    ip_addresses.insert(std::net::Ipv6Addr::from(aaaa.address).into());\n                }\n                simple_dns::rdata::RData::A(a) => {\n                    ip_addresses.insert(std::net::Ipv4Addr::from(a.address).into());\n                }\n", 'checks'),
 ("character-string: one octet more demanded", D + 'character_string.rs', "length + *position + 1 > data.len()", "length + *position + 2 > data.len()", 'fail:charstr_codec_source'),
 ("character-string: the last octet of the data not usable", D + 'character_string.rs', "length + *position + 1 > data.len()", "length + *position + 1 >= data.len()", 'fail:charstr_codec_source'),
 ("character-string: new refuses 255 octets", D + 'character_string.rs', "        if data.len() > MAX_CHARACTER_STRING_LENGTH {", "        if data.len() >= MAX_CHARACTER_STRING_LENGTH {", 'fail:charstr_codec_source'),
 ("character-string: cursor advanced by the length only", D + 'character_string.rs', "        *position += length + 1;", "        *position += length;\n        *position += 1;", 'untied:charstr.codec'),
 ("build_bytes_vec_compressed keeps a scratch buffer", D + 'packet.rs', "        let mut out = Cursor::new(Vec::with_capacity(900));\n        self.write_compressed_to(&mut out)?;\n\n        Ok(out.into_inner())", "        thread_local!(static SCRATCH: std::cell::RefCell<Vec<u8>> = std::cell::RefCell::new(Vec::new()));\n        SCRATCH.with(|s| { let mut out = Cursor::new(std::mem::take(&mut *s.borrow_mut())); self.write_compressed_to(&mut out)?; let v = out.into_inner(); *s.borrow_mut() = v.clone(); Ok(v) })", 'untied:packet.entry_points'),
 ("HARMLESS: build_bytes_vec with another initial capacity", D + 'packet.rs', "        let mut out = Cursor::new(Vec::with_capacity(900));\n\n        self.write_to(&mut out)?;", "        let mut out = Cursor::new(Vec::with_capacity(512));\n\n        self.write_to(&mut out)?;", 'checks'),
 ("mdns refresh in millis", 'simple-mdns/src/resource_record_manager.rs', 'added + Duration::from_secs(ttl / 2)', 'added + Duration::from_millis(ttl / 2)', 'untied:mdns.expiration'),
]

def lean_env():
    e = lambda *a: subprocess.run(['lake', 'env', *a], cwd=LEAN_DIR, capture_output=True, text=True).stdout.strip()
    return e('which', 'lean'), e('printenv', 'LEAN_PATH')

TIES = ['TieEnv', 'TieEnvName', 'TieEnvMdns', 'TieEnvTxt']

def tie_fails(lean, lean_path, tmp, generated):
    """None if the three envelope modules (TieEnv, TieEnvName, TieEnvMdns) check against `generated`, else the name of the first theorem that fails"""
    d = tempfile.mkdtemp(prefix='lean', dir=tmp)
    src, lib = os.path.join(d, 'src'), os.path.join(d, 'lib')
    os.makedirs(os.path.join(src, 'TieScratch')); os.makedirs(os.path.join(lib, 'TieScratch'))
    open(os.path.join(src, 'TieScratch/Envelope.lean'), 'w').write(generated)
    env = dict(os.environ, LEAN_PATH=lib + ':' + lean_path)
    p = subprocess.run([lean, 'TieScratch/Envelope.lean', '-o', os.path.join(lib, 'TieScratch/Envelope.olean')], cwd=src, env=env, capture_output=True, text=True)
    if p.returncode != 0: return 'generated file does not compile: ' + (p.stdout + p.stderr)[:200]
    for mod in TIES:
        path = os.path.join(LEAN_DIR, f'SimpleDnsModel/Props/{mod}.lean')
        open(os.path.join(src, mod + '.lean'), 'w').write(open(path).read().replace('import SimpleDnsModel.Generated.Envelope', 'import TieScratch.Envelope'))
        p = subprocess.run([lean, mod + '.lean'], cwd=src, env=env, capture_output=True, text=True)
        if p.returncode == 0: continue
        m = re.search(re.escape(mod) + r'\.lean:(\d+):', p.stdout + p.stderr)
        lines = open(path).read().split('\n')
        for k in range(int(m.group(1)) - 1, -1, -1) if m else []:
            t = re.match(r'theorem (\w+)', lines[k])
            if t: return t.group(1)
        return (p.stdout + p.stderr)[:200]
    return None

def main():
    ap = argparse.ArgumentParser(); ap.add_argument('--repo', default='/repo'); args = ap.parse_args()
    lean, lean_path = lean_env()
    bad = 0
    with tempfile.TemporaryDirectory(prefix='envselftest') as tmp:
        base_repo = os.path.join(tmp, 'base')
        for sub in ('simple-dns/src', 'simple-mdns/src'):
            shutil.copytree(os.path.join(args.repo, sub), os.path.join(base_repo, sub))
        def translate(repo, out):
            p = subprocess.run([sys.executable, os.path.join(HERE, 'translate_env.py'), '--repo', repo, '--out', out], capture_output=True, text=True)
            return p.returncode, p.stdout
        rc, msg = translate(base_repo, os.path.join(tmp, 'base.lean'))
        baseline = open(os.path.join(tmp, 'base.lean')).read()
        assert rc == 0 and 'untied 0' in msg, msg
        def one(k, mut):
            label, file, old, new, expect = mut
            repo = os.path.join(tmp, f'm{k}')
            shutil.copytree(base_repo, repo)
            path = os.path.join(repo, file)
            text = open(path).read()
            if text.count(old) != 1: return label, False, f"the text to replace occurs {text.count(old)} times"
            open(path, 'w').write(text.replace(old, new))
            out = os.path.join(tmp, f'm{k}.lean')
            rc, msg = translate(repo, out)
            if rc != 0: return label, False, f"translator exit {rc}"
            gen = open(out).read()
            untied = re.findall(r'translate_env\.py: UNTIED (\S+):', msg)
            failing = tie_fails(lean, lean_path, tmp, gen)
            if expect == 'same':
                return label, gen == baseline, 'identical' if gen == baseline else 'generated file differs'
            if expect == 'checks':     # a harmless rewrite: readable, other text generated or not, every theorem still checks
                return label, untied == [] and failing is None, f"untied {untied}, " + ('all modules check' if failing is None else 'fails at ' + str(failing))
            if expect.startswith('untied:'):
                ok = untied == [expect[7:]] and failing is None
                return label, ok, f"untied {untied}, TieEnv {'checks' if failing is None else 'fails at ' + str(failing)}"
            ok = untied == [] and failing == expect[5:]
            return label, ok, f"untied {untied}, first failing theorem {failing}"
        with concurrent.futures.ThreadPoolExecutor(8) as pool:
            for label, ok, detail in pool.map(lambda a: one(*a), enumerate(M)):
                print(('ok   ' if ok else 'FAIL ') + label + ' -- ' + detail)
                bad += not ok
        f = tie_fails(lean, lean_path, tmp, baseline)
        print(('ok   ' if f is None else 'FAIL ') + 'TieEnv.lean against the unchanged sources -- ' + ('checks' if f is None else str(f)))
        bad += f is not None
        # every item made unreadable at once: every theorem of the four modules must fall back to the model's own values
        # (an item that cannot be read is a NOTE, never a failed proof)
        p = subprocess.run([sys.executable, os.path.join(HERE, 'translate_env.py'), '--repo', base_repo, '--out', os.path.join(tmp, 'none.lean')],
                           capture_output=True, text=True, env=dict(os.environ, TRANSLATE_ENV_UNTIE='all'))
        f2 = tie_fails(lean, lean_path, tmp, open(os.path.join(tmp, 'none.lean')).read()) if 'tied 0 items' in p.stdout else 'the translator did not untie everything: ' + p.stdout[-200:]
        print(('ok   ' if f2 is None else 'FAIL ') + 'every item untied at once -- ' + ('all four modules check' if f2 is None else 'fails at ' + str(f2)))
        bad += f2 is not None
    print(f"{len(M) + 2 - bad}/{len(M) + 2} as expected")
    return 1 if bad else 0

if __name__ == '__main__':
    sys.exit(main())
