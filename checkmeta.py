# Per-property texts used by ./check for the evidence files.
STD = [
    "std::io::Write/Seek, integer (de)serialisation, UTF-8 validation and hash containers behave as modelled (DESIGN.md section 5)",
    "the model is tied to the code only through the correspondence runs recorded here; behaviour no generated case reaches is not tied",
]
META = {
 "C01": dict(
  rule="valid messages of each of the 43 RDATA kinds (plain and compressed) with every truncation and +-1 on every byte, all header-peek functions on every buffer length 0..13, bounded-exhaustive pointer graphs behind a question header, counts without body, pointer chains, random and mutated messages; each input is parsed by the library under catch_unwind with heap and time metering and by the Lean model; non-trivial = longer than a header; distinct = distinct (request, implementation output)",
  assumptions=STD + ["real time and real heap are observed on the sampled inputs; the theorems bound the model (no panic outcome, termination by construction)"],
  trusted=["heap metering by a counting global allocator, time by Instant"],
  timeout=dict(quick=1200, thorough=7200)),
 "C06": dict(
  rule="bounded-exhaustive: all buffers up to length L (quick 5, thorough 6) over {00,01,02,03,3F,40,80,C0,C1,'a'} at every start offset, plus random message-like buffers with label runs, pointer chains, self/forward/out-of-range pointers, reserved label types and names around the 255-byte limit; each (buffer, offset) is decoded by Name::parse (hook parse_name_at), by the Lean model and by the RFC 1035 reference decoder (spec.name); non-trivial = offset inside the buffer; distinct = distinct (request, output)",
  assumptions=STD, exhaustive=False, timeout=dict(quick=1200, thorough=7200)),
 "C08": dict(
  rule="exhaustive: all 65536 flag words x 4 ids through Packet::parse, all eight peek functions on all 65536 words x 2 count tuples, all 128x128 flag-set pairs through set/remove/has, all 6 opcodes x 13 rcodes x 128 flag subsets through build_bytes_vec; every case compared with the model and with RFC 1035 4.1.1 positional arithmetic; every case is non-trivial; distinct = distinct (request, output)",
  assumptions=STD, exhaustive=True, timeout=dict(quick=1200, thorough=1200)),
 "C18": dict(
  rule="exhaustive: all 65536 codes through TYPE::from/u16::from, CLASS, QTYPE, QCLASS try_from and back; every supported record kind (built and parsed) x every question type; every class x qclass; compared with the model and with the IANA registry extract; distinct = distinct (request, output)",
  assumptions=STD, exhaustive=True, timeout=dict(quick=600, thorough=600)),
}
