# Per-property texts used by ./check for the evidence files.
STD = [
    "std::io::Write/Seek, integer (de)serialisation, UTF-8 validation and hash containers behave as modelled (DESIGN.md section 5)",
    "the model is tied to the code only through the correspondence runs recorded here; behaviour no generated case reaches is not tied",
]
META = {
 "C01": dict(
  extra_modules=["C01Cost", "TieEnv", "C05C03More", "C01Time"],
  rule="valid messages of each of the 43 RDATA kinds (plain and compressed) with every truncation and +-1 on every byte, all header-peek functions on every buffer length 0..13, bounded-exhaustive pointer graphs behind a question header, counts without body, pointer chains, random and mutated messages; each input is parsed by the library under catch_unwind with heap and time metering and by the Lean model; non-trivial = longer than a header; distinct = distinct (request, implementation output)",
  assumptions=STD + ["real time and real heap are observed on the sampled inputs; the theorems bound the model (no panic outcome, termination by construction)"],
  trusted=["heap metering by a counting global allocator, time by Instant"],
  timeout=dict(quick=600, thorough=7200)),
 "C06": dict(
  extra_modules=["C06Errors", "C06Complete", "Tie", "C10C06More", "C06Spec"],
  rule="bounded-exhaustive: all buffers up to length L (quick 5, thorough 6) over {00,01,02,03,3F,40,80,C0,C1,'a'} at every start offset, plus random message-like buffers with label runs, pointer chains, self/forward/out-of-range pointers, reserved label types and names around the 255-byte limit; each (buffer, offset) is decoded by Name::parse (hook parse_name_at), by the Lean model and by the RFC 1035 reference decoder (spec.name); non-trivial = offset inside the buffer; distinct = distinct (request, output)",
  assumptions=STD, exhaustive=False, timeout=dict(quick=600, thorough=7200)),
 "C08": dict(
  extra_modules=["C08Api", "Tie", "TieEnv", "C08C09More"],
  rule="exhaustive: all 65536 flag words x 4 ids through Packet::parse, all eight peek functions on all 65536 words x 2 count tuples, all 128x128 flag-set pairs through set/remove/has, all 6 opcodes x 13 rcodes x 128 flag subsets through build_bytes_vec; new_query / new_reply for 7 ids and into_reply / set_id / to_cache_flush_record on 300 (thorough 3000) random packets; every case compared with the model and with RFC 1035 4.1.1 positional arithmetic; every case is non-trivial; distinct = distinct (request, output)",
  assumptions=STD, exhaustive=True, timeout=dict(quick=600, thorough=1200)),
 "C18": dict(
  extra_modules=["Tie", "TieEnv", "C18More"],
  rule="exhaustive: all 65536 codes through TYPE::from/u16::from, CLASS, QTYPE, QCLASS try_from and back; every supported record kind (built and parsed) x every question type; every class x qclass; compared with the model and with the IANA registry extract; distinct = distinct (request, output)",
  assumptions=STD, exhaustive=True, timeout=dict(quick=600, thorough=600)),
 "C02": dict(
  extra_modules=["Tie", "C05C03More", "C07Sites"],
  rule="packets built through the public constructors: one record of each of the 43 RDATA kinds alone in each section, then random packets (0..8 entries per section, all classes, cache-flush/unicast bits, boundary integers, binary labels, names up to 255 bytes, with/without OPT, every named opcode/rcode); build_bytes_vec compared byte for byte with the model, Packet::parse of the bytes compared with the model, and the intrinsic oracle parse(build(p)) == p on every field; distinct = distinct (request, output); the excluded point TXT-without-strings is run as the last case",
  assumptions=STD, timeout=dict(quick=600, thorough=7200)),
 "C03": dict(
  extra_modules=["C03Length", "Tie", "C05C03More", "C03Any"],
  rule="packets as C02 generated with heavy suffix sharing (label pool of 8), plus large messages straddling 16 KiB (padding records, then names repeated on both sides of offset 16383) and up to ~60 KB; build_bytes_vec_compressed compared byte for byte with the model; oracle: parse(compressed) == parse(plain) and len(compressed) <= len(plain); distinct = distinct (request, output)",
  assumptions=STD, timeout=dict(quick=600, thorough=7200)),
 "C05": dict(
  extra_modules=["C05Trailing", "TieEnv", "C05C03More"],
  rule="reference-encoded messages (independent encoder, caller-chosen compression anywhere, OPT at any index) with RDLENGTH made larger/smaller than the natural size (+-1, +2, +7, to the end of the message, past it, zero), the same with surplus bytes inserted so that the envelope stays consistent and more records follow, every count +-1, truncations, plus valid library-built packets; Packet::parse compared exactly with the model; oracle: an independent RFC 1035 envelope walker in the harness, each returned question/record compared with its entry (owner, type, class, flush, ttl), and RDATA re-parsed from the message cut at the record's end; non-trivial = distinct (request, output)",
  assumptions=STD, timeout=dict(quick=600, thorough=7200)),
 "C11": dict(
  extra_modules=["TieEnv", "C04C07C11More", "C11Iff"],
  rule="parser-accepted inputs among: reference-encoded messages with arbitrary compression, unknown types/classes of content, empty RDATA, OPT anywhere, RDLENGTH/count perturbations, every 37th (quick) or every (thorough) header word; chain parse -> build (plain and compressed) -> parse on the library, each stage compared with the model; oracle: the re-parsed packet equals the first; non-trivial = accepted inputs",
  assumptions=STD, timeout=dict(quick=600, thorough=7200)),
 "C17": dict(
  extra_modules=["C17More"],
  rule="bounded-exhaustive: all strings up to length 6 (thorough 7) over {a,A,1,-,_,.,\\,e-acute}, label lengths 0..70 alone and with neighbours, encoded name lengths 245..262 in three shapes, Label::new on boundary labels, all pairs of the 31 names with <=4 labels over {a,b} plus link-local case variants for is_subdomain_of / without / is_link_local; compared with the model and with the property's grammar re-stated in the harness; distinct = distinct (request, output)",
  assumptions=STD, exhaustive=True, timeout=dict(quick=600, thorough=7200)),
 "C19": dict(
  extra_modules=["C19More"],
  rule="Unicode strings of byte lengths 0..12 and around every multiple of 254/255 up to 1020 with multi-byte characters placed across chunk boundaries and code points congruent to ';' or '=' mod 256 through TXT::try_from(&str) / String::try_from(TXT) and a wire round trip; attribute maps (0..4 entries, absent/empty/long values, some entries over 255 bytes) through TXT::try_from(HashMap) / attributes(); attributes() and long_attributes() on arbitrary character-strings (duplicates, invalid UTF-8, '=' first, look-alike characters); CharacterString::new on every length 0..300; all compared with the model and with an independent re-statement of the property; distinct = distinct (request, output)",
  assumptions=STD + ["String::from_utf8 = Lean core String.fromUTF8?"], timeout=dict(quick=600, thorough=7200)),
 "C13": dict(
  extra_modules=["TieEnv", "C13More"],
  rule="histories of add-authoritative / add-cached / remove / clear (0..9 operations) over names from a label alphabet chosen to collide under concatenation (foo, bar, foobar, _my, _mysrv, local, a 20-byte label, ...) and records A/AAAA/SRV/TXT/PTR in classes IN/CH, followed by a query of 0..2 questions (types A AAAA SRV TXT PTR ANY MAILB, classes IN CH ANY, unicast bit), two thirds of the questions aimed at registered names; build_reply on the real store (hook) compared with the model on (none | id, flags, unicast, multiset of answers, multiset of additionals); oracle: the property re-stated as a linear scan over the registered list with Name::is_subdomain_of; non-trivial = at least one operation and one question",
  assumptions=STD + ["radix_trie 0.2.1: subtrie(key) is Some iff a node sits exactly at the key's nibble path (root, inserted key, or branching point)"],
  timeout=dict(quick=600, thorough=7200)),
 "C20": dict(
  extra_modules=["C20Refresh", "Tie", "TieEnv", "C20More"],
  rule="real-time histories (64 threads in parallel, 8 steps of 0.5 s): add-cached with TTL {0,1,2,1000} and cache-flush, add-authoritative, remove, clear on three A records (x.local, y.x.local, z.local); queries at quarter offsets with the authoritative (exact/subdomain), cached and combined filters; every call is bracketed by Instant::now(); the model is evaluated under the two extreme readings of the measured intervals and a query is compared only when both agree (otherwise counted inconclusive); oracle: the property re-stated over the recorded history; distinct = distinct (history prefix, query, answer)",
  assumptions=STD + ["std::time::Instant is a monotone clock; the runtime clock is observed through sleeps with measured intervals"],
  timeout=dict(quick=600, thorough=7200)),
 "C09": dict(
  extra_modules=["Tie", "TieEnv", "C08C09More"],
  rule="all 13 named rcodes x versions {0,1,3,127,255} x UDP sizes {0,512,1232,65535} x 3 (thorough 12) shapes (0..3 options of lengths 0,1,3,255,1000; 0..2 other additional records): build_bytes_vec compared with the model and checked clause by clause against RFC 6891 by an independent walker (exactly one OPT, root owner, TYPE 41, CLASS = size, TTL octets, option triples, ARCOUNT, header low nibble), then parsed back; plus independently encoded messages with the OPT record at every index of the additional section, in the library's TTL layout and in the RFC's, through Packet::parse; the known finding opt-ttl-byte-order covers exactly the TTL octet order",
  assumptions=STD, timeout=dict(quick=600, thorough=7200)),
 "C10": dict(
  extra_modules=["C10Svcb", "Tie", "C10C06More"],
  rule="for each of the 39 typed variants other than OPT: 60 (thorough 2000) field tuples (boundary and random values, shared-suffix names, opaque tails of 0..1200 bytes); the library's serialisation compared byte for byte with an independent reference encoder written from the RFCs (harness) and with the Lean RFC schema encoder (spec.rdata), under the IANA code; the reference encoding parsed by the library and compared field by field; plus encodings breaking a structural rule (LOC version, SVCB key order, NSEC window order, inner length overruns) which must be rejected, and the ISDN-without-sub-address encoding of RFC 1183 (known finding); plus 400 (thorough 6000) SVCB/HTTPS records built through set_param and the typed helpers (mandatory, alpn, no-default-alpn, port, ipv4hint, ipv6hint) in random order with repeats and values at the 65535/65536 boundary, replayed by the model (svcb) and checked against an ordered map of RFC 9460 section 7 values kept by the harness",
  assumptions=STD, timeout=dict(quick=600, thorough=7200)),
 "C04": dict(
  extra_modules=["TieEnv", "C04C07C11More"],
  rule="packets as C02 (700 quick / 6000 thorough): both vector-returning entry points walked by an independent RFC 1035 walker (counts = entries written incl. OPT once, no trailing bytes); then every writer configuration: Vec (empty / pre-filled), Cursor<Vec> at offsets 0/2/3/7 over empty, shorter and longer pre-filled storage, Cursor<&mut [u8]> and &mut [u8] of capacities {0,1,11,12,len-1,len,len+1,len+2,len/2} (every capacity 0..len+2 for every 16th packet) and at offsets 2/3/5, plain and compressed; result class, final storage and final position compared with the model and with the bytes of build_bytes_vec* spliced in; distinct = distinct (request, output)",
  assumptions=STD, timeout=dict(quick=900, thorough=7200)),
 "C07": dict(
  extra_modules=["Tie", "C04C07C11More", "C07Sites"],
  rule="packets as C03 incl. messages crossing 16 KiB and the sweep of a multi-label name across offset 16383/16384: build_bytes_vec_compressed compared byte for byte with the model; every name site located by an independent schema-aware walker in the harness; each pointer checked: strictly backward, target <= 16383, not into the header, expansion = the intended name (from the uncompressed output), none inside no-compress RDATA (SRV NAPTR KX RRSIG NSEC IPSECKEY SVCB HTTPS), repeated compressible names written as exactly two bytes; plus write_compressed_to at stream offsets 2 and 13 must emit the same message",
  assumptions=STD, timeout=dict(quick=600, thorough=7200)),
 "C12": dict(
  extra_modules=["C12C16More"],
  rule="parser-accepted inputs among reference-encoded hostile messages and library-built packets with mostly arbitrary-byte labels and strings (invalid UTF-8, NUL, dots, backslashes, empty and maximal strings): every public observer (Debug/Display of packet, names, labels, records, RDATA, character-strings; clone; into_owned; Hash; ==; is_subdomain_of/without/is_link_local; match_qtype/qclass; TXT attributes/long_attributes/String::try_from; SVCB params) applied to every part under catch_unwind; outcome class compared with the model's observers; for valid UTF-8 the exact Display text; non-trivial = accepted inputs",
  assumptions=STD + ["panics inside std::fmt and the exact lossy text are outside the model"], timeout=dict(quick=600, thorough=7200)),
 "C16": dict(
  extra_modules=["C12C16More", "TieEnv"],
  rule="for each of the 43 RDATA kinds 25 (thorough 400) records, each both built from parts and borrowed from a receive buffer: into_owned and clone compared with the original through every accessor (canonical text), ==, both serialisers and Hash; pairs differing only in TTL/cache-flush, and pairs of different records, through == / DefaultHasher / HashSet::contains; questions; names built from parts vs received; InstanceInformation built by inserting the same addresses and ports in different orders; compared with the model's into_owned / hash feeds",
  assumptions=STD + ["std Hash of slices/Vec/primitive types feeds length prefix and content; DefaultHasher is a function of the feed"], timeout=dict(quick=600, thorough=7200)),
 "C14": dict(
  extra_modules=["TieEnv", "C14Fits"],
  rule="datagrams of length 0..9000 (empty, 1..12 bytes, reference-encoded messages with hostile names, RDLENGTH/count perturbations, truncations) against stores holding 0..3 arbitrary records (hostile names: invalid UTF-8, 63-byte labels, dots and backslashes; half of them aimed at the datagram's question names): the responder's loop body (has_flags.unwrap_or(true), Packet::parse, build_reply, build_bytes_vec_compressed) and the discovery listener's (parse, sync and async add_response_to_resources or reply, then a cache query on the same store) run through the simple_mdns::verif hooks under catch_unwind and compared with the model's handleResponder / handleDiscovery on (none | parsed reply, cached records); oracle: no panic, every reply re-parses, async = sync; plus one live run: SimpleMdnsResponder on loopback multicast answers a query, receives 400 (thorough 4000) hostile datagrams and three short ones, two queries of 400 and 1400 questions for a registered 250-byte TXT record (replies of 100 KB and 370 KB, which no datagram carries), and must still answer (counted sockets-not-exercised when the first query gets no answer); 500 (thorough 4000) well-formed announcements and goodbyes for the watched service with TTL 0 / 1 / 2^31 / 2^32-1, flush bits and hostile instance labels go through the same pipelines; two more live runs: OneShotMdnsResolver::query_service_address with a pending query receives 250 hostile datagrams forced past its header peek (response bit, id 0, an answer count), a non-address answer and the address (it must return, and with 127.0.0.9 if it answers), and ServiceDiscovery receives 120 announcements/goodbyes with the hostile TTLs plus 150 hostile datagrams and must then still discover a plain announcement (get_known_services must not panic on a poisoned lock); the same three live runs for the tokio flavour (async_discovery) on one current-thread runtime; a 20 KB reply; RDATA of the rare types cut at every length as probe and as response; OPT option lengths at the top of the 16-bit range; stores holding NSEC values with windows out of order",
  assumptions=STD + ["threads, sockets and lock poisoning are not modelled; the live run samples them"], timeout=dict(quick=900, thorough=7200)),
 "C15": dict(
  extra_modules=["C15Reports", "C15Multi"],
  rule="1..3 peers per history, each advertising an instance (valid single-label names, 0..4 IPv4/IPv6 addresses, 0..2 ports, 0..3 attributes with absent/empty/non-empty values, multi-byte keys and values, one key in 30 empty): InstanceInformation::into_records, a compressed response packet (sometimes carrying records of a foreign service, of the discoverer's own instance, or of the service name itself), Packet::parse, add_response_to_resources into a store initialised like ServiceDiscovery::new, get_domain_resources(cached) + from_records; the set of discovered instances compared with the model and with the advertised ones; plus escape/unescape of 2000 (thorough 20000) strings over {a . \\ e-acute space U+013B z -}",
  assumptions=STD, timeout=dict(quick=600, thorough=7200)),
}
