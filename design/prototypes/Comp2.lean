import NameProto.Comp
namespace NP

abbrev Table := List (Name × Nat)

def Table.find (t : Table) (n : Name) : Option Nat :=
  match t with
  | [] => none
  | (m, off) :: rest => if m = n then some off else Table.find rest n

theorem Table.find_mem {t : Table} {n : Name} {off : Nat} (h : Table.find t n = some off) :
    (n, off) ∈ t := by
  induction t with
  | nil => simp [Table.find] at h
  | cons e rest ih =>
    obtain ⟨m, o⟩ := e
    simp only [Table.find] at h
    split at h
    · rename_i hm; simp at h; subst hm; subst h; simp
    · exact List.mem_cons_of_mem _ (ih h)

/-- functional model of `Name::compress_append` (after F11), cursor at the end of `out`. -/
def compressAppend : Name → Bytes → Table → Bytes × Table
  | [], out, t => (out ++ [0], t)
  | l :: rest, out, t =>
    match Table.find t (l :: rest) with
    | some off => (out ++ [UInt8.ofNat (0xC0 + off / 256), UInt8.ofNat (off % 256)], t)
    | none =>
      compressAppend rest (out ++ (UInt8.ofNat l.length :: l))
        (if out.length ≤ 0x3FFF then (l :: rest, out.length) :: t else t)

def LabelsOK (n : Name) : Prop := ∀ l ∈ n, 1 ≤ l.length ∧ l.length ≤ 63

def Good (out : Bytes) (e : Name × Nat) : Prop := e.1 ≠ [] ∧ e.2 ≤ 0x3FFF ∧ Enc out e.2 e.1

theorem Good.append {out : Bytes} {e : Name × Nat} (x : Bytes) (h : Good out e) : Good (out ++ x) e :=
  ⟨h.1, h.2.1, h.2.2.append x⟩

theorem ptr_bits : ∀ k < 64, (192 + k) &&& 192 = 192 ∧ (192 + k) &&& 63 = k := by decide

theorem compressAppend_spec (n : Name) : ∀ (out : Bytes) (t : Table),
    LabelsOK n →
    (∀ e ∈ t, Good out e ∨ e.1.length > n.length) →
    (∃ bs, (compressAppend n out t).1 = out ++ bs) ∧
    Enc (compressAppend n out t).1 out.length n ∧
    (∀ e ∈ (compressAppend n out t).2, e ∈ t ∨ Good (compressAppend n out t).1 e) := by
  induction n with
  | nil =>
    intro out t _ _
    simp only [compressAppend]
    refine ⟨⟨[0], rfl⟩, ?_, fun e he => Or.inl he⟩
    exact Enc.root (by simp)
  | cons l rest ih =>
    intro out t hok hinv
    simp only [compressAppend]
    split
    · -- found: emit a pointer
      rename_i off hfind
      have hmem := Table.find_mem hfind
      have hgood : Good out (l :: rest, off) := by
        rcases hinv _ hmem with h | h
        · exact h
        · simp at h
      obtain ⟨_, hoff, henc⟩ := hgood
      have hlt := henc.lt_length
      have hk : off / 256 < 64 := by simp at hoff; omega
      obtain ⟨hb1, hb2⟩ := ptr_bits (off / 256) hk
      refine ⟨⟨_, rfl⟩, ?_, fun e he => Or.inl he⟩
      have e1 : (UInt8.ofNat (192 + off / 256)).toNat = 192 + off / 256 := by
        simp [UInt8.toNat_ofNat']; omega
      have e2 : (UInt8.ofNat (off % 256)).toNat = off % 256 := by
        simp [UInt8.toNat_ofNat']
      refine Enc.ptr (b := UInt8.ofNat (192 + off / 256)) (b2 := UInt8.ofNat (off % 256))
        (by simp) (by rw [e1]; exact hb1) (by simp) ?_ (by simp) ?_
      · rw [e1, e2, hb2]; omega
      · rw [e1, e2, hb2]
        have : off / 256 * 256 + off % 256 = off := by omega
        rw [this]; exact henc.append _
    · -- not found: write the label, recurse
      rename_i hfind
      have hl := hok l (by simp)
      have hokr : LabelsOK rest := fun x hx => hok x (by simp [hx])
      let out2 := out ++ (UInt8.ofNat l.length :: l)
      let t2 : Table := if out.length ≤ 0x3FFF then (l :: rest, out.length) :: t else t
      have hinv2 : ∀ e ∈ t2, Good out2 e ∨ e.1.length > rest.length := by
        intro e he
        have : e = (l :: rest, out.length) ∨ e ∈ t := by
          simp only [t2] at he; split at he
          · simpa using he
          · exact Or.inr he
        rcases this with h | h
        · subst h; right; simp
        · rcases hinv e h with g | g
          · left; exact g.append _
          · right; simp at g ⊢; omega
      obtain ⟨⟨bs, hbs⟩, henc, hnew⟩ := ih out2 t2 hokr hinv2
      have hlen : (UInt8.ofNat l.length).toNat = l.length := by
        simp [UInt8.toNat_ofNat']; omega
      have hout2len : out2.length = out.length + 1 + l.length := by simp [out2]; omega
      -- the whole name is encoded at out.length in the final buffer
      have hfull : Enc (compressAppend rest out2 t2).1 out.length (l :: rest) := by
        rw [hbs]
        refine Enc.label (b := UInt8.ofNat l.length) ?_ (by rw [hlen]; exact hl.1) (by rw [hlen]; exact hl.2) ?_ ?_ ?_
        · simp [out2]
        · rw [hlen]; simp [out2]
        · rw [hlen]; simp [out2]; omega
        · rw [hlen, ← hbs, ← hout2len]; exact henc
      refine ⟨⟨(UInt8.ofNat l.length :: l) ++ bs, by rw [hbs]; simp [out2]⟩, hfull, ?_⟩
      intro e he
      rcases hnew e he with h | h
      · by_cases hc : out.length ≤ 0x3FFF
        · have : e = (l :: rest, out.length) ∨ e ∈ t := by
            simpa [t2, hc] using h
          rcases this with h' | h'
          · right; subst h'; exact ⟨by simp, hc, hfull⟩
          · left; exact h'
        · left; simpa [t2, hc] using h
      · right; exact h

end NP
