namespace SP
abbrev Bytes := List UInt8

inductive Out (α : Type) where
  | ok : α → Out α
  | err : Out α
  | panic : Out α
deriving Repr, DecidableEq

@[inline] def Out.bind : Out α → (α → Out β) → Out β
  | .ok a, f => f a
  | .err, _ => .err
  | .panic, _ => .panic

instance : Monad Out where
  pure := .ok
  bind := Out.bind

@[simp] theorem bind_ok (a : α) (f : α → Out β) : (Out.ok a >>= f) = f a := rfl
@[simp] theorem bind_err (f : α → Out β) : ((Out.err : Out α) >>= f) = .err := rfl
@[simp] theorem bind_panic (f : α → Out β) : ((Out.panic : Out α) >>= f) = .panic := rfl
@[simp] theorem pure_eq (a : α) : (pure a : Out α) = .ok a := rfl

/-- `data[a..b]` -/
def slice (d : Bytes) (a b : Nat) : Out Bytes :=
  if a ≤ b ∧ b ≤ d.length then .ok ((d.drop a).take (b - a)) else .panic

/-- big-endian, fixed width -/
def beN : Nat → Nat → Bytes
  | 0, _ => []
  | w+1, n => UInt8.ofNat (n / 256 ^ w) :: beN w (n % 256 ^ w)

def deN : Bytes → Nat
  | [] => 0
  | b :: rest => b.toNat * 256 ^ rest.length + deN rest

@[simp] theorem beN_length (w n : Nat) : (beN w n).length = w := by
  induction w generalizing n with
  | zero => rfl
  | succ w ih => simp [beN, ih]

theorem deN_beN (w n : Nat) (h : n < 256 ^ w) : deN (beN w n) = n := by
  induction w generalizing n with
  | zero => simp at h; simp [beN, deN, h]
  | succ w ih =>
    have hpos : 0 < 256 ^ w := Nat.pow_pos (by decide)
    have hq : n / 256 ^ w < 256 := by
      rw [Nat.div_lt_iff_lt_mul hpos]; rw [Nat.pow_succ] at h; rw [Nat.mul_comm]; exact h
    simp [beN, deN, ih _ (Nat.mod_lt _ hpos), UInt8.toNat_ofNat', Nat.mod_eq_of_lt hq]
    exact Nat.div_add_mod' n (256 ^ w)

inductive FKind where
  | int (w : Nat)        -- big-endian unsigned integer of w bytes
  | charstr              -- one length byte + bytes
  | rest                 -- everything up to the RDATA limit (last field only)
deriving Repr, DecidableEq

inductive FVal where
  | int (n : Nat)
  | bytes (b : Bytes)
deriving Repr, DecidableEq

def encField : FKind → FVal → Bytes
  | .int w, .int n => beN w n
  | .charstr, .bytes b => UInt8.ofNat b.length :: b
  | .rest, .bytes b => b
  | _, _ => []

def FieldOK : FKind → FVal → Prop
  | .int w, .int n => n < 256 ^ w
  | .charstr, .bytes b => b.length ≤ 255
  | .rest, .bytes _ => True
  | _, _ => False

/-- decode one field at `pos`, never reading at or beyond `lim ≤ d.length` -/
def decField (d : Bytes) (lim : Nat) : FKind → Nat → Out (FVal × Nat)
  | .int w, pos =>
    if pos + w > lim then .err else do
      let s ← slice d pos (pos + w)
      pure (.int (deN s), pos + w)
  | .charstr, pos =>
    if pos ≥ lim then .err else do
      let lb ← slice d pos (pos + 1)
      let len := deN lb
      if pos + 1 + len > lim then .err else do
        let s ← slice d (pos + 1) (pos + 1 + len)
        pure (.bytes s, pos + 1 + len)
  | .rest, pos =>
    if pos > lim then .err else do
      let s ← slice d pos lim
      pure (.bytes s, lim)

def encAll : List FKind → List FVal → Bytes
  | k :: ks, v :: vs => encField k v ++ encAll ks vs
  | _, _ => []

def decAll (d : Bytes) (lim : Nat) : List FKind → Nat → Out (List FVal × Nat)
  | [], pos => .ok ([], pos)
  | k :: ks, pos => do
    let (v, p) ← decField d lim k pos
    let (vs, p') ← decAll d lim ks p
    pure (v :: vs, p')

inductive AllOK : List FKind → List FVal → Prop where
  | nil : AllOK [] []
  | cons {k v ks vs} : FieldOK k v → AllOK ks vs → AllOK (k :: ks) (v :: vs)

/-- `rest` may only be the last field -/
def TailLast : List FKind → Prop
  | [] => True
  | [_] => True
  | k :: ks => k ≠ .rest ∧ TailLast ks

theorem slice_mid (pre mid post : Bytes) (a b : Nat) (ha : a = pre.length) (hb : b = pre.length + mid.length) :
    slice (pre ++ (mid ++ post)) a b = .ok mid := by
  subst ha hb; simp [slice]

theorem slice_ok {d : Bytes} {a b : Nat} (h1 : a ≤ b) (h2 : b ≤ d.length) :
    slice d a b = .ok ((d.drop a).take (b - a)) := by simp [slice, h1, h2]

theorem decField_no_panic (d : Bytes) (lim : Nat) (hl : lim ≤ d.length) (k : FKind) (pos : Nat) :
    decField d lim k pos ≠ .panic := by
  cases k <;> simp only [decField]
  · split
    · simp
    · rw [slice_ok (by omega) (by omega)]; simp
  · split
    · simp
    · rw [slice_ok (by omega) (by omega)]
      simp only [bind_ok]
      split
      · simp
      · rw [slice_ok (by omega) (by omega)]; simp
  · split
    · simp
    · rw [slice_ok (by omega) (by omega)]; simp

theorem decAll_no_panic (d : Bytes) (lim : Nat) (hl : lim ≤ d.length) (ks : List FKind) (pos : Nat) :
    decAll d lim ks pos ≠ .panic := by
  induction ks generalizing pos with
  | nil => simp [decAll]
  | cons k ks ih =>
    simp only [decAll]
    have h1 := decField_no_panic d lim hl k pos
    cases hk : decField d lim k pos with
    | panic => exact absurd hk h1
    | err => simp
    | ok r =>
      obtain ⟨v, p⟩ := r
      simp only [bind_ok]
      have h2 := ih p
      cases hr : decAll d lim ks p with
      | panic => exact absurd hr h2
      | err => simp
      | ok r2 => obtain ⟨vs, p'⟩ := r2; simp

/-- framing lemma for one field -/
theorem decField_rt (pre post : Bytes) (k : FKind) (v : FVal) (lim : Nat) (hv : FieldOK k v)
    (hlim : pre.length + (encField k v).length ≤ lim)
    (hlim2 : lim ≤ pre.length + (encField k v).length + post.length)
    (hrest : k = .rest → lim = pre.length + (encField k v).length) :
    decField (pre ++ (encField k v ++ post)) lim k pre.length
      = .ok (v, pre.length + (encField k v).length) := by
  cases k <;> cases v <;> simp [FieldOK] at hv
  · rename_i w n
    simp only [decField, encField] at *
    simp at hlim
    rw [if_neg (by omega)]
    rw [slice_mid pre (beN w n) post _ _ rfl (by simp)]
    simp [deN_beN w n hv]
  · rename_i b
    simp only [decField, encField] at *
    simp at hlim
    rw [if_neg (by omega)]
    have h1 : slice (pre ++ (UInt8.ofNat b.length :: b ++ post)) pre.length (pre.length + 1)
        = .ok [UInt8.ofNat b.length] := by
      rw [slice_ok (by omega) (by simp)]
      simp
    simp only [h1, bind_ok]
    have hd : deN [UInt8.ofNat b.length] = b.length := by
      simp [deN, UInt8.toNat_ofNat']; omega
    rw [hd, if_neg (by omega)]
    have h2 : slice (pre ++ (UInt8.ofNat b.length :: b ++ post)) (pre.length + 1) (pre.length + 1 + b.length)
        = .ok b := by
      rw [slice_ok (by omega) (by simp; omega)]
      have : pre ++ (UInt8.ofNat b.length :: b ++ post) = (pre ++ [UInt8.ofNat b.length]) ++ (b ++ post) := by simp
      rw [this, List.drop_append_of_le_length (by simp)]
      simp
    rw [h2]; simp; omega
  · rename_i b
    simp only [decField, encField] at *
    have hl := hrest trivial
    subst hl
    rw [if_neg (by omega)]
    rw [slice_mid pre b post _ _ rfl rfl]
    simp

theorem encAll_nil_right (ks : List FKind) : encAll ks [] = [] := by cases ks <;> rfl

/-- generic round trip for every flat schema: decoding the encoding gives the values back and
    leaves the cursor exactly at the RDATA limit -/
theorem decAll_rt (ks : List FKind) : ∀ (vs : List FVal) (pre post : Bytes) (lim : Nat),
    AllOK ks vs → TailLast ks → lim = pre.length + (encAll ks vs).length →
    decAll (pre ++ (encAll ks vs ++ post)) lim ks pre.length = .ok (vs, lim) := by
  induction ks with
  | nil =>
    intro vs pre post lim hok _ hlim
    cases hok
    simp [decAll, encAll] at *
    exact hlim.symm
  | cons k ks ih =>
    intro vs pre post lim hok htl hlim
    cases hok with
    | @cons _ v _ vs' hk hrest =>
      simp only [encAll, List.length_append] at hlim
      have hfield := decField_rt pre (encAll ks vs' ++ post) k v lim hk (by omega)
        (by simp; omega)
        (by
          intro hkr
          subst hkr
          cases ks with
          | nil => cases hrest; simp [encAll] at hlim ⊢; exact hlim
          | cons k2 ks2 => simp [TailLast] at htl)
      have htl' : TailLast ks := by
        cases ks with
        | nil => trivial
        | cons k2 ks2 => exact htl.2
      have hih := ih vs' (pre ++ encField k v) post lim hrest htl' (by simp; omega)
      simp only [decAll, encAll]
      have e1 : pre ++ (encField k v ++ encAll ks vs' ++ post) = pre ++ (encField k v ++ (encAll ks vs' ++ post)) := by
        simp
      rw [e1, hfield]
      simp only [bind_ok]
      have e2 : pre ++ (encField k v ++ (encAll ks vs' ++ post)) = (pre ++ encField k v) ++ (encAll ks vs' ++ post) := by
        simp
      rw [e2]
      have e3 : pre.length + (encField k v).length = (pre ++ encField k v).length := by simp
      rw [e3, hih]
      rfl

end SP
