namespace KP
abbrev Bytes := List UInt8
abbrev Label := Bytes

/-- mDNS store key after fix F15: labels from the root down, each prefixed with its length. -/
def enc : List Label → Bytes
  | [] => []
  | l :: ls => (UInt8.ofNat l.length :: l) ++ enc ls

def Short (ls : List Label) : Prop := ∀ l ∈ ls, l.length < 256

theorem prefix_of_prefix {a b : List Label} (h : a <+: b) : enc a <+: enc b := by
  obtain ⟨t, rfl⟩ := h
  induction a with
  | nil => simp [enc]
  | cons l ls ih =>
    simp only [List.cons_append, enc]
    obtain ⟨u, hu⟩ := ih
    exact ⟨u, by simp [← hu]⟩

theorem append_prefix_append_of_length_eq {l m x y : Bytes} (h : l.length = m.length) :
    l ++ x <+: m ++ y ↔ l = m ∧ x <+: y := by
  induction l generalizing m with
  | nil => cases m with
    | nil => simp
    | cons _ _ => simp at h
  | cons a l ih => cases m with
    | nil => simp at h
    | cons b m =>
      simp only [List.cons_append, List.cons_prefix_cons]
      simp at h
      rw [ih h]
      constructor
      · rintro ⟨rfl, rfl, hp⟩; exact ⟨rfl, hp⟩
      · rintro ⟨heq, hp⟩; cases heq; exact ⟨rfl, rfl, hp⟩

theorem prefix_iff {a b : List Label} (ha : Short a) (hb : Short b) :
    enc a <+: enc b ↔ a <+: b := by
  constructor
  · intro h
    induction a generalizing b with
    | nil => simp
    | cons l ls ih =>
      cases b with
      | nil => simp [enc] at h
      | cons m ms =>
        simp only [enc, List.cons_append, List.cons_prefix_cons] at h
        have hl := ha l (by simp)
        have hm := hb m (by simp)
        obtain ⟨hlen, hrest⟩ := h
        have hlen' : l.length = m.length := by
          have := congrArg UInt8.toNat hlen
          simp [UInt8.toNat_ofNat'] at this
          omega
        obtain ⟨hlm, htail⟩ := (append_prefix_append_of_length_eq hlen').mp hrest
        subst hlm
        rw [List.cons_prefix_cons]
        exact ⟨rfl, ih (fun x hx => ha x (by simp [hx])) (fun x hx => hb x (by simp [hx])) htail⟩
  · exact prefix_of_prefix

theorem enc_inj {a b : List Label} (ha : Short a) (hb : Short b) (h : enc a = enc b) : a = b := by
  have h1 := (prefix_iff ha hb).mp (by rw [h]; exact List.prefix_refl _)
  have h2 := (prefix_iff hb ha).mp (by rw [h]; exact List.prefix_refl _)
  exact List.IsPrefix.eq_of_length_le h1 h2.length_le
end KP
