import NameProto.Basic
namespace NP

/-- encoding relation with strictly backward pointers (what the library emits and accepts). -/
inductive Enc (d : Bytes) : Nat → Name → Prop where
  | root {off} : d[off]? = some 0 → Enc d off []
  | label {off} {b : UInt8} {l : Label} {rest : Name} :
      d[off]? = some b → 1 ≤ b.toNat → b.toNat ≤ 63 →
      l = (d.drop (off+1)).take b.toNat → off + 1 + b.toNat ≤ d.length →
      Enc d (off + 1 + b.toNat) rest → Enc d off (l :: rest)
  | ptr {off} {b b2 : UInt8} {n : Name} :
      d[off]? = some b → b.toNat &&& 0xC0 = 0xC0 → d[off+1]? = some b2 →
      (b.toNat &&& 0x3F) * 256 + b2.toNat < off → n ≠ [] →
      Enc d ((b.toNat &&& 0x3F) * 256 + b2.toNat) n → Enc d off n

theorem getElem?_append_some {d e : Bytes} {i : Nat} {b : UInt8} (h : d[i]? = some b) :
    (d ++ e)[i]? = some b := by
  have hi : i < d.length := by
    rcases Nat.lt_or_ge i d.length with h' | h'
    · exact h'
    · simp [List.getElem?_eq_none h'] at h
  simp [List.getElem?_append_left hi, h]

theorem take_drop_append {d e : Bytes} {a n : Nat} (h : a + n ≤ d.length) :
    ((d ++ e).drop a).take n = (d.drop a).take n := by
  rw [List.drop_append_of_le_length (by omega)]
  rw [List.take_append_of_le_length (by simp; omega)]

theorem Enc.append {d : Bytes} {off : Nat} {n : Name} (e : Bytes) (h : Enc d off n) :
    Enc (d ++ e) off n := by
  induction h with
  | root h0 => exact Enc.root (getElem?_append_some h0)
  | label hb h1 h63 hl hfit _ ih =>
    refine Enc.label (getElem?_append_some hb) h1 h63 ?_ (by simp; omega) ih
    rw [take_drop_append (by omega)]; exact hl
  | ptr hb hp hb2 hlt hne _ ih =>
    exact Enc.ptr (getElem?_append_some hb) hp (getElem?_append_some hb2) hlt hne ih

def wireLen (n : Name) : Nat := (n.map (fun l => l.length + 1)).sum + 1

theorem lt_of_getElem?_some {d : Bytes} {i : Nat} {b : UInt8} (h : d[i]? = some b) : i < d.length := by
  rcases Nat.lt_or_ge i d.length with h' | h'
  · exact h'
  · simp [List.getElem?_eq_none h'] at h

theorem Enc.lt_length {d : Bytes} {off : Nat} {n : Name} (h : Enc d off n) : off < d.length := by
  cases h with
  | root h0 => exact lt_of_getElem?_some h0
  | label hb => exact lt_of_getElem?_some hb
  | ptr hb => exact lt_of_getElem?_some hb

/-- the parser accepts every backward-pointer encoding whose expansion fits the 255 budget -/
theorem nameLoop_of_Enc (d : Bytes) (off : Nat) (n : Name) (h : Enc d off n) :
    ∀ (s : NS), s.pp = off → s.pos < d.length → (s.follow = false → s.pos = s.pp) →
      s.size + wireLen n ≤ 255 →
      ∃ p, nameLoop d s = .ok (s.labels.reverse ++ n, p) := by
  induction h with
  | @root off h0 =>
    intro s hpp hpos _ hsz
    have hlt : off < d.length := lt_of_getElem?_some h0
    unfold nameLoop
    simp [hpp, h0, wireLen] at *
    refine ⟨s.pos + 1, ?_⟩
    simp [show ¬ (d.length ≤ s.pos ∨ d.length ≤ off) by omega, show ¬ 255 ≤ s.size by omega]
  | @label off b l rest hb h1 h63 hl hfit hrest ih =>
    intro s hpp hpos hfol hsz
    have hlt : off < d.length := by omega
    have hnext : off + 1 + b.toNat < d.length := hrest.lt_length
    have hbz : b ≠ 0 := by intro h; subst h; simp at h1
    have hnp : ¬ (b.toNat &&& 192 = 192) := by
      intro hc
      have : b.toNat &&& 192 ≤ b.toNat := Nat.and_le_left
      omega
    have hll : l.length = b.toNat := by
      subst hl; simp; omega
    simp [wireLen, hll] at hsz
    have hih := ih { pos := (if s.follow then s.pos else s.pos + b.toNat + 1), pp := off + b.toNat + 1, follow := s.follow, size := s.size + 1 + b.toNat, labels := l :: s.labels }
      (by simp; omega)
      (by
        by_cases hf : s.follow
        · simp [hf]; exact hpos
        · have := hfol (by simpa using hf); simp [hf]; omega)
      (by intro hf; simp at hf; have := hfol hf; simp [hf]; omega)
      (by simp [wireLen]; omega)
    obtain ⟨p, hp⟩ := hih
    refine ⟨p, ?_⟩
    rw [nameLoop]
    simp [hpp, hb, hbz, hnp, show ¬ (d.length ≤ s.pos ∨ d.length ≤ off) by omega,
      show ¬ 255 ≤ s.size by omega, show ¬ (d.length < off + 1 + b.toNat) by omega,
      show ¬ 63 < b.toNat by omega, ← hl]
    simpa [List.append_assoc] using hp
  | @ptr off b b2 n hb hp hb2 hlt hne htgt ih =>
    intro s hpp hpos hfol hsz
    have hltd : off < d.length := lt_of_getElem?_some hb
    have hlt2 : off + 1 < d.length := lt_of_getElem?_some hb2
    have hbz : b ≠ 0 := by intro h; subst h; simp at hp
    have hih := ih { s with pos := (if s.follow then s.pos else s.pos + 1), pp := (b.toNat &&& 63) * 256 + b2.toNat, follow := true }
      (by simp)
      (by
        by_cases hf : s.follow
        · simp [hf]; exact hpos
        · have := hfol (by simpa using hf); simp [hf]; omega)
      (by intro hf; simp at hf)
      (by simpa using hsz)
    obtain ⟨p, hp'⟩ := hih
    refine ⟨p, ?_⟩
    rw [nameLoop]
    simp [hpp, hb, hbz, hp, hb2, show ¬ (d.length ≤ s.pos ∨ d.length ≤ off) by omega,
      show ¬ 255 ≤ s.size by (simp [wireLen] at hsz; omega), show ¬ (d.length < off + 2) by omega,
      show ¬ (off ≤ (b.toNat &&& 63) * 256 + b2.toNat) by omega]
    simpa using hp'

end NP
