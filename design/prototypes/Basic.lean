namespace NP

abbrev Bytes := List UInt8
abbrev Label := Bytes
abbrev Name := List Label

inductive Out (α : Type) where
  | ok : α → Out α
  | err : Out α
  | panic : Out α
deriving Repr, DecidableEq

structure NS where
  pos : Nat
  pp : Nat
  follow : Bool
  size : Nat
  labels : List Label   -- reversed

/-- `Name::parse` loop after fix F1. -/
def nameLoop (d : Bytes) (s : NS) : Out (Name × Nat) :=
    if s.pos ≥ d.length ∨ s.pp ≥ d.length then .err else
    if s.size ≥ 255 then .err else
    match d[s.pp]? with
    | none => .panic
    | some b =>
      if b = 0 then .ok (s.labels.reverse, s.pos + 1)
      else if b.toNat &&& 0xC0 = 0xC0 then
        let pos := if s.follow then s.pos else s.pos + 1
        if s.pp + 2 > d.length then .err else
        match d[s.pp+1]? with
        | none => .panic
        | some b2 =>
          let ptr := (b.toNat &&& 0x3F) * 256 + b2.toNat
          if _h : ptr ≥ s.pp then .err else
          nameLoop d { s with pos := pos, pp := ptr, follow := true }
      else
        let len := b.toNat
        if s.pp + 1 + len > d.length then .err else
        if len > 63 then .err else
        let lab := (d.drop (s.pp+1)).take len
        nameLoop d { pos := if s.follow then s.pos else s.pos + len + 1,
                     pp := s.pp + len + 1, follow := s.follow,
                     size := s.size + 1 + len, labels := lab :: s.labels }
termination_by (255 - s.size, s.pp)
decreasing_by
  · simp_wf; right; omega
  · simp_wf; left; omega

def Name.parse (d : Bytes) (pos : Nat) : Out (Name × Nat) :=
  nameLoop d { pos := pos, pp := pos, follow := false, size := 0, labels := [] }

/-- RFC 1035 4.1.4 decoding relation. -/
inductive Decodes (d : Bytes) : Nat → Name → Prop where
  | root {off} : d[off]? = some 0 → Decodes d off []
  | label {off} {b : UInt8} {l : Label} {rest : Name} :
      d[off]? = some b → 1 ≤ b.toNat → b.toNat ≤ 63 →
      l = (d.drop (off+1)).take b.toNat → off + 1 + b.toNat ≤ d.length →
      Decodes d (off + 1 + b.toNat) rest → Decodes d off (l :: rest)
  | ptr {off} {b b2 : UInt8} {n : Name} :
      d[off]? = some b → b.toNat &&& 0xC0 = 0xC0 → d[off+1]? = some b2 →
      Decodes d ((b.toNat &&& 0x3F) * 256 + b2.toNat) n → Decodes d off n

theorem nameLoop_no_panic (d : Bytes) (s : NS) : nameLoop d s ≠ .panic := by
  fun_induction nameLoop d s <;> simp_all <;> omega

/-- soundness: whatever the loop returns is what the RFC relation gives from `pp`,
    appended to the labels already collected. -/
theorem nameLoop_sound (d : Bytes) (s : NS) (n : Name) (p : Nat)
    (h : nameLoop d s = .ok (n, p)) :
    ∃ tail, n = s.labels.reverse ++ tail ∧ Decodes d s.pp tail := by
  fun_induction nameLoop d s generalizing n p
  all_goals try (simp at h; done)
  · -- terminating zero
    rename_i s _ _ hz
    simp at h
    exact ⟨[], by simp [h.1], Decodes.root hz⟩
  · -- pointer
    rename_i s _ _ b hb hnz hptr pos _ b2 hb2 ptr hlt ih
    obtain ⟨tail, h1, h2⟩ := ih n p h
    exact ⟨tail, h1, Decodes.ptr hb hptr hb2 h2⟩
  · -- label
    rename_i s _ _ b hb hnz hptr len hfit h63 lab ih
    obtain ⟨tail, h1, h2⟩ := ih n p h
    refine ⟨lab :: tail, by simp [h1], ?_⟩
    have hb1 : 1 ≤ b.toNat := by
      have : b.toNat ≠ 0 := by
        intro h0; apply hnz; exact UInt8.toNat_inj.mp (by simpa using h0)
      omega
    have h2' : Decodes d (s.pp + 1 + b.toNat) tail := by
      have : s.pp + len + 1 = s.pp + 1 + b.toNat := by simp [len]; omega
      simpa [this] using h2
    exact Decodes.label hb hb1 (by omega) rfl (by omega) h2'

theorem Name.parse_sound (d : Bytes) (pos : Nat) (n : Name) (p : Nat)
    (h : Name.parse d pos = .ok (n, p)) : Decodes d pos n := by
  obtain ⟨tail, h1, h2⟩ := nameLoop_sound d _ n p h
  simp at h1; subst h1; exact h2

end NP
